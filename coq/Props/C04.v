(* C04 — external products, CMux.  Pinned statements only (proofs: Proofs/GadgetPhase.v, C04Phase.v; notions: Model/GadgetSpec.v;
   reading guide in Props/C03.v).  C04_ggsw_cells (Proofs/C04Phase.v) = key_rows_ok with src_ci = m2 (x) Sk ci: cell (row, ci) of the GGSW
   encrypts m2 2^(-(row+1) dsize b) for ci = 0 and s_{ci-1} m2 2^(..) for ci >= 1 (HYPOTHESIS of the phase theorems). *)
From PV Require Import Base.MachineInt Model.Znx Model.Limbs Model.Flat Model.Ring Model.Poly Model.DftAbs Model.Gadget Model.GadgetOracle Model.C04Run.
From PV Require Import Model.GadgetSpec Proofs.C07Dft Proofs.C07Ring Proofs.GadgetDecomp Proofs.GadgetPhase Proofs.GadgetBound Proofs.C03Phase Proofs.C04Phase Model.GadgetEnc Proofs.GadgetEnc Proofs.GadgetNorm Model.GadgetDerived Proofs.GadgetSigma Proofs.GadgetShape Proofs.GadgetDerived.
Open Scope Z_scope.

(* (3c) phase(res) = m2 (x) phase(limbs l < min(a_size, dnum*dsize) of ct) + E + 2^P Iq, on the model, all shapes, both modes, any prior accumulator content of the right shape *)
Theorem C04_external_product_phase :
  forall (P b : Z) (n rank msize a_size dsize dnum : nat) (clamp : bool) (a res0 : cols_t) (K : pmat) (Sk : nat -> list Z)
      (m2 : list Z) (e I : nat -> nat -> list Z),
    wf_cols n (S rank) a_size a ->
    acc_shape (S rank) msize clamp res0 ->
    wf_pmat_in n (dnum * S rank) (msize * S rank) K ->
    (1 <= dsize)%nat ->
    (dsize - 2 <= msize)%nat ->
    (forall co : nat, length (Sk co) = n) ->
    length m2 = n ->
    (forall row ci : nat, length (e row ci) = n) ->
    (forall row ci : nat, length (I row ci) = n) ->
    0 <= b ->
    Z.of_nat msize * b <= P ->
    Z.of_nat dnum * Z.of_nat dsize * b <= P ->
    key_rows_ok P b n (S rank) (S rank) msize dsize dnum K Sk (fun ci : nat => pmul m2 (Sk ci)) e I ->
    exists res : cols_t,
      gadget_product n (S rank) msize res0 a a_size dsize dnum msize clamp K = Some res /\
      wf_cols n (S rank) msize res /\
      phase_f P b n (S rank) msize (limbs_of res) Sk =
      padd
        (padd (pmul m2 (phase_f P b n (S rank) (Nat.min a_size (dnum * dsize)) (acol n a) Sk))
           (gadget_err P b n (S rank) (S rank) msize dsize dnum (acol n a) K Sk e))
        (pscale (2 ^ P) (gadget_int b n (S rank) (S rank) msize dsize dnum (acol n a) K Sk I)).
Proof. exact C04_external_product_phase_lemma. Qed.
Print Assumptions C04_external_product_phase.

(* the product in external-product mode from ANY prior accumulator content of cols_out columns of msize limbs (cmux takes it from scratch) *)
Theorem C04_gadget_product_spec_any_acc :
  forall (n cin cols_out msize a_size dsize dnum : nat) (a : cols_t) (m : pmat) (res0 : cols_t),
    wf_cols n cin a_size a ->
    (1 <= dsize)%nat ->
    (dsize - 2 <= msize)%nat ->
    length res0 = cols_out ->
    (forall co : nat, (co < cols_out)%nat -> length (col res0 co) = msize) ->
    exists res : cols_t,
      gadget_product n cols_out msize res0 a a_size dsize dnum msize false m = Some res /\
      wf_cols n cols_out msize res /\
      (forall co j : nat,
       (co < cols_out)%nat -> (j < msize)%nat -> lim (col res co) j = gp_spec n cin cols_out msize a_size dsize dnum false (acol n a) m co j).
Proof. exact gadget_product_spec_any_acc. Qed.
Print Assumptions C04_gadget_product_spec_any_acc.

(* cmux before its final normalisation: bit (phase(t) - phase(f)) + phase(f) + E + 2^P Iq; only the shape of res0 matters *)
Theorem C04_cmux_phase :
  forall (be P b : Z) (n rank res_size t_size f_size dsize dnum msize : nat) (res0 t f : cols_t) (K : pmat) (Sk : nat -> list Z)
      (bit : Z) (e I : nat -> nat -> list Z),
    (1 <= n)%nat ->
    wf_cols n (S rank) t_size t ->
    wf_cols n (S rank) f_size f ->
    length res0 = S rank ->
    (forall co : nat, (co < S rank)%nat -> length (col res0 co) = msize) ->
    wf_pmat_in n (dnum * S rank) (msize * S rank) K ->
    (1 <= dsize)%nat ->
    (dsize - 2 <= msize)%nat ->
    (forall co : nat, length (Sk co) = n) ->
    (forall row ci : nat, length (e row ci) = n) ->
    (forall row ci : nat, length (I row ci) = n) ->
    0 <= b ->
    Z.of_nat msize * b <= P ->
    Z.of_nat dnum * Z.of_nat dsize * b <= P ->
    key_rows_ok P b n (S rank) (S rank) msize dsize dnum K Sk (fun ci : nat => pmul (pscale bit (pone n)) (Sk ci)) e I ->
    exists big : cols_t,
      gadget_product n (S rank) msize res0 (map2 (col_sub n res_size) t f) res_size dsize dnum msize false K = Some big /\
      cmux be n b rank res_size t_size f_size dsize dnum msize res0 t f K =
      sequence (map (big_normalize (wbig be) n b b res_size) (map2 add_small big f)) /\
      wf_cols n (S rank) msize (map2 add_small big f) /\
      phase_f P b n (S rank) msize (limbs_of (map2 add_small big f)) Sk =
      padd
        (padd
           (padd
              (pscale bit
                 (psub (phase_f P b n (S rank) (Nat.min res_size (dnum * dsize)) (acol n t) Sk)
                    (phase_f P b n (S rank) (Nat.min res_size (dnum * dsize)) (acol n f) Sk)))
              (phase_f P b n (S rank) (Nat.min msize f_size) (acol n f) Sk))
           (gadget_err P b n (S rank) (S rank) msize dsize dnum (acol n (map2 (col_sub n res_size) t f)) K Sk e))
        (pscale (2 ^ P) (gadget_int b n (S rank) (S rank) msize dsize dnum (acol n (map2 (col_sub n res_size) t f)) K Sk I)).
Proof. exact C04_cmux_phase_lemma. Qed.
Print Assumptions C04_cmux_phase.

(* bit = 0 selects f, bit = 1 selects t *)
Theorem C04_cmux_selects :
  forall (be P b : Z) (n rank res_size t_size f_size dsize dnum msize : nat) (res0 t f : cols_t) (K : pmat) (Sk : nat -> list Z)
      (bit : Z) (e I : nat -> nat -> list Z),
    (1 <= n)%nat ->
    wf_cols n (S rank) t_size t ->
    wf_cols n (S rank) f_size f ->
    length res0 = S rank ->
    (forall co : nat, (co < S rank)%nat -> length (col res0 co) = msize) ->
    wf_pmat_in n (dnum * S rank) (msize * S rank) K ->
    (1 <= dsize)%nat ->
    (dsize - 2 <= msize)%nat ->
    (forall co : nat, length (Sk co) = n) ->
    (forall row ci : nat, length (e row ci) = n) ->
    (forall row ci : nat, length (I row ci) = n) ->
    0 <= b ->
    Z.of_nat msize * b <= P ->
    Z.of_nat dnum * Z.of_nat dsize * b <= P ->
    key_rows_ok P b n (S rank) (S rank) msize dsize dnum K Sk (fun ci : nat => pmul (pscale bit (pone n)) (Sk ci)) e I ->
    bit = 0 \/ bit = 1 ->
    (bit = 1 -> (f_size <= Nat.min res_size (dnum * dsize))%nat /\ (f_size <= msize)%nat) ->
    exists big : cols_t,
      gadget_product n (S rank) msize res0 (map2 (col_sub n res_size) t f) res_size dsize dnum msize false K = Some big /\
      cmux be n b rank res_size t_size f_size dsize dnum msize res0 t f K =
      sequence (map (big_normalize (wbig be) n b b res_size) (map2 add_small big f)) /\
      phase_f P b n (S rank) msize (limbs_of (map2 add_small big f)) Sk =
      padd
        (padd
           (if bit =? 1
            then phase_f P b n (S rank) (Nat.min res_size (dnum * dsize)) (acol n t) Sk
            else phase_f P b n (S rank) (Nat.min msize f_size) (acol n f) Sk)
           (gadget_err P b n (S rank) (S rank) msize dsize dnum (acol n (map2 (col_sub n res_size) t f)) K Sk e))
        (pscale (2 ^ P) (gadget_int b n (S rank) (S rank) msize dsize dnum (acol n (map2 (col_sub n res_size) t f)) K Sk I)).
Proof. exact C04_cmux_selects_lemma. Qed.
Print Assumptions C04_cmux_selects.

(* (3c) with Gadget.phase_val when no input limb is lost (a_size <= dnum*dsize): phase(res) = m2 (x) phase(ct) + E + 2^P Iq *)
Theorem C04_external_product_phase_val :
  forall (P b : Z) (n msize a_size dsize dnum : nat) (clamp : bool) (a res0 : cols_t) (K : pmat) (sk : list (list Z))
      (m2 : list Z) (e I : nat -> nat -> list Z),
    wf_cols n (S (length sk)) a_size a ->
    acc_shape (S (length sk)) msize clamp res0 ->
    wf_pmat_in n (dnum * S (length sk)) (msize * S (length sk)) K ->
    (1 <= n)%nat ->
    (1 <= dsize)%nat ->
    (dsize - 2 <= msize)%nat ->
    (a_size <= dnum * dsize)%nat ->
    (forall s : list Z, In s sk -> length s = n) ->
    length m2 = n ->
    (forall row ci : nat, length (e row ci) = n) ->
    (forall row ci : nat, length (I row ci) = n) ->
    0 <= b ->
    Z.of_nat msize * b <= P ->
    Z.of_nat dnum * Z.of_nat dsize * b <= P ->
    C04_ggsw_cells P b n (length sk) msize dsize dnum K sk m2 e I ->
    exists res : cols_t,
      gadget_product n (S (length sk)) msize res0 a a_size dsize dnum msize clamp K = Some res /\
      phase_val P b n sk res =
      padd
        (padd (pmul m2 (phase_val P b n sk a)) (gadget_err P b n (S (length sk)) (S (length sk)) msize dsize dnum (acol n a) K (sk_ext n sk) e))
        (pscale (2 ^ P) (gadget_int b n (S (length sk)) (S (length sk)) msize dsize dnum (acol n a) K (sk_ext n sk) I)).
Proof. exact C04_external_product_phase_val_lemma. Qed.
Print Assumptions C04_external_product_phase_val.

(* (5) GGSW encryption (plaintext subtracted from mask column col, Model/GadgetEnc.v) = GGLWE body equation with src_col = m2 (x) Sk col *)
Theorem C04_enc_body_of_ggsw_body :
  forall (P b : Z) (n rank msize dsize dnum : nat) (K : pmat) (Sk : nat -> list Z) (m2 : list Z) (e J : nat -> nat -> list Z),
    (1 <= n)%nat ->
    wf_pmat_in n (dnum * S rank) (msize * S rank) K ->
    (forall co : nat, length (Sk co) = n) ->
    Sk 0%nat = pone n ->
    length m2 = n ->
    (forall row ci : nat, length (e row ci) = n) ->
    (forall row ci : nat, length (J row ci) = n) ->
    ggsw_body_ok P b n rank msize dsize dnum K Sk m2 e J ->
    enc_body_ok P b n (S rank) rank msize dsize dnum K Sk (fun ci : nat => pmul m2 (Sk ci)) e J.
Proof. exact enc_body_of_ggsw_body. Qed.
Print Assumptions C04_enc_body_of_ggsw_body.

(* (5) hence the GGSW-cell hypothesis *)
Theorem C04_ggsw_cells_of_ggsw_body :
  forall (P b : Z) (n rank msize dsize dnum : nat) (K : pmat) (Sk : nat -> list Z) (m2 : list Z) (e J : nat -> nat -> list Z),
    (1 <= n)%nat ->
    wf_pmat_in n (dnum * S rank) (msize * S rank) K ->
    (forall co : nat, length (Sk co) = n) ->
    Sk 0%nat = pone n ->
    length m2 = n ->
    (forall row ci : nat, length (e row ci) = n) ->
    (forall row ci : nat, length (J row ci) = n) ->
    ggsw_body_ok P b n rank msize dsize dnum K Sk m2 e J ->
    key_rows_ok P b n (S rank) (S rank) msize dsize dnum K Sk (fun ci : nat => pmul m2 (Sk ci)) e J.
Proof. exact ggsw_cells_of_ggsw_body. Qed.
Print Assumptions C04_ggsw_cells_of_ggsw_body.

(* (5) the external-product phase theorems with the body equations of ggsw_encrypt_sk instead of the GGSW-cell hypothesis *)
Theorem C04_external_product_phase_enc :
  forall (P b : Z) (n msize a_size dsize dnum : nat) (clamp : bool) (a res0 : cols_t) (K : pmat) (sk : list (list Z))
      (m2 : list Z) (e J : nat -> nat -> list Z),
    wf_cols n (S (length sk)) a_size a ->
    acc_shape (S (length sk)) msize clamp res0 ->
    wf_pmat_in n (dnum * S (length sk)) (msize * S (length sk)) K ->
    (1 <= n)%nat ->
    (1 <= dsize)%nat ->
    (dsize - 2 <= msize)%nat ->
    (forall s : list Z, In s sk -> length s = n) ->
    length m2 = n ->
    (forall row ci : nat, length (e row ci) = n) ->
    (forall row ci : nat, length (J row ci) = n) ->
    0 <= b ->
    Z.of_nat msize * b <= P ->
    Z.of_nat dnum * Z.of_nat dsize * b <= P ->
    ggsw_body_ok P b n (length sk) msize dsize dnum K (sk_ext n sk) m2 e J ->
    exists res : cols_t,
      gadget_product n (S (length sk)) msize res0 a a_size dsize dnum msize clamp K = Some res /\
      wf_cols n (S (length sk)) msize res /\
      phase_f P b n (S (length sk)) msize (limbs_of res) (sk_ext n sk) =
      padd
        (padd (pmul m2 (phase_f P b n (S (length sk)) (Nat.min a_size (dnum * dsize)) (acol n a) (sk_ext n sk)))
           (gadget_err P b n (S (length sk)) (S (length sk)) msize dsize dnum (acol n a) K (sk_ext n sk) e))
        (pscale (2 ^ P) (gadget_int b n (S (length sk)) (S (length sk)) msize dsize dnum (acol n a) K (sk_ext n sk) J)).
Proof. exact C04_external_product_phase_enc_lemma. Qed.
Print Assumptions C04_external_product_phase_enc.

Theorem C04_external_product_phase_val_enc :
  forall (P b : Z) (n msize a_size dsize dnum : nat) (clamp : bool) (a res0 : cols_t) (K : pmat) (sk : list (list Z))
      (m2 : list Z) (e J : nat -> nat -> list Z),
    wf_cols n (S (length sk)) a_size a ->
    acc_shape (S (length sk)) msize clamp res0 ->
    wf_pmat_in n (dnum * S (length sk)) (msize * S (length sk)) K ->
    (1 <= n)%nat ->
    (1 <= dsize)%nat ->
    (dsize - 2 <= msize)%nat ->
    (forall s : list Z, In s sk -> length s = n) ->
    length m2 = n ->
    (forall row ci : nat, length (e row ci) = n) ->
    (forall row ci : nat, length (J row ci) = n) ->
    0 <= b ->
    Z.of_nat msize * b <= P ->
    Z.of_nat dnum * Z.of_nat dsize * b <= P ->
    ggsw_body_ok P b n (length sk) msize dsize dnum K (sk_ext n sk) m2 e J ->
    (a_size <= dnum * dsize)%nat ->
    exists res : cols_t,
      gadget_product n (S (length sk)) msize res0 a a_size dsize dnum msize clamp K = Some res /\
      phase_val P b n sk res =
      padd
        (padd (pmul m2 (phase_val P b n sk a)) (gadget_err P b n (S (length sk)) (S (length sk)) msize dsize dnum (acol n a) K (sk_ext n sk) e))
        (pscale (2 ^ P) (gadget_int b n (S (length sk)) (S (length sk)) msize dsize dnum (acol n a) K (sk_ext n sk) J)).
Proof. exact C04_external_product_phase_val_enc_lemma. Qed.
Print Assumptions C04_external_product_phase_val_enc.

(* (7) GGSW row expansion on the model: column j = gadget product of the mask columns with the tensor key + body on column j encrypts s_{j-1} (x) M_r with error s_{j-1} (x) e0 + E *)
Theorem C04_ggsw_expand_row_cells :
  forall (P b : Z) (n rank msize a_size dsize dnum j : nat) (ct0 res0 : cols_t) (K : pmat) (Sk : nat -> list Z) (e I : nat -> nat -> list Z)
      (Mr e0 I0 : list Z) (Sb env : Z),
    wf_cols n (S rank) a_size ct0 ->
    wf_pmat_in n (dnum * rank) (msize * S rank) K ->
    (1 <= n)%nat ->
    (1 <= dsize)%nat ->
    (dsize - 2 <= msize)%nat ->
    (a_size <= dnum * dsize)%nat ->
    (forall co : nat, length (Sk co) = n) ->
    Sk 0%nat = pone n ->
    (forall row ci : nat, length (e row ci) = n) ->
    (forall row ci : nat, length (I row ci) = n) ->
    0 <= b ->
    Z.of_nat msize * b <= P ->
    Z.of_nat dnum * Z.of_nat dsize * b <= P ->
    key_rows_ok P b n rank (S rank) msize dsize dnum K Sk (fun i : nat => pmul (Sk (S i)) (Sk j)) e I ->
    length Mr = n ->
    length e0 = n ->
    length I0 = n ->
    phase_f P b n (S rank) a_size (acol n ct0) Sk = padd (padd Mr e0) (pscale (2 ^ P) I0) ->
    pnorm (Sk j) <= Sb ->
    pnorm (gadget_err P b n rank (S rank) msize dsize dnum (acol n (tl ct0)) K Sk e) <= env ->
    exists res : cols_t,
      gadget_product n (S rank) msize res0 (tl ct0) a_size dsize dnum msize true K = Some res /\
      padd (phase_f P b n (S rank) msize (limbs_of res) Sk) (pmul (pval P b n (acol n ct0 0) a_size) (Sk j)) =
      padd (padd (pmul (Sk j) Mr) (padd (pmul (Sk j) e0) (gadget_err P b n rank (S rank) msize dsize dnum (acol n (tl ct0)) K Sk e)))
        (pscale (2 ^ P) (padd (gadget_int b n rank (S rank) msize dsize dnum (acol n (tl ct0)) K Sk I) (pmul (Sk j) I0))) /\
      pnorm (padd (pmul (Sk j) e0) (gadget_err P b n rank (S rank) msize dsize dnum (acol n (tl ct0)) K Sk e)) <= Z.of_nat n * Sb * pnorm e0 + env.
Proof. exact ggsw_expand_row_cells_lemma. Qed.
Print Assumptions C04_ggsw_expand_row_cells.

(* (7) GGSW key switch = key switch of column 0 then row expansion: every cell keeps m2 (phase level) *)
Theorem C04_ggsw_keyswitch_cells :
  forall (n : nat) (P : Z),
    (0 < n)%nat ->
    forall (sj ph0 ph0' phj Mr e0 I0 Eks Iks KS c0s Ej Iq : list Z) (Sb envj : Z),
    length sj = n ->
    length Mr = n ->
    length e0 = n ->
    length I0 = n ->
    length Eks = n ->
    length Iks = n ->
    length KS = n ->
    length c0s = n ->
    length Ej = n ->
    length Iq = n ->
    ph0 = padd (padd Mr e0) (pscale (2 ^ P) I0) ->
    ph0' = padd (padd ph0 Eks) (pscale (2 ^ P) Iks) ->
    padd KS c0s = pmul sj ph0' ->
    phj = padd (padd (padd KS Ej) (pscale (2 ^ P) Iq)) c0s ->
    pnorm sj <= Sb ->
    pnorm Ej <= envj ->
    phj = padd (padd (pmul sj Mr) (padd (pmul sj (padd e0 Eks)) Ej)) (pscale (2 ^ P) (padd Iq (pmul sj (padd I0 Iks)))) /\
    pnorm (padd (pmul sj (padd e0 Eks)) Ej) <= Z.of_nat n * Sb * (pnorm e0 + pnorm Eks) + envj.
Proof. exact ggsw_keyswitch_cells_lemma. Qed.
Print Assumptions C04_ggsw_keyswitch_cells.

(* (7) GGSW automorphism: every cell encrypts sigma_g m2 (phase level) *)
Theorem C04_ggsw_automorphism_cells :
  forall (n : nat) (P : Z),
    (0 < n)%nat ->
    forall g : Z,
    Z.gcd g (2 * Z.of_nat n) = 1 ->
    forall (r : Z) (sj ph0 ph0' phj m2 e0 I0 Eks Iks KS c0s Ej Iq : list Z) (Sb envj : Z),
    length sj = n ->
    length m2 = n ->
    length e0 = n ->
    length I0 = n ->
    length Eks = n ->
    length Iks = n ->
    length KS = n ->
    length c0s = n ->
    length Ej = n ->
    length Iq = n ->
    ph0 = padd (padd (pscale r m2) e0) (pscale (2 ^ P) I0) ->
    ph0' = padd (padd (sigmaE g ph0) Eks) (pscale (2 ^ P) Iks) ->
    padd KS c0s = pmul sj ph0' ->
    phj = padd (padd (padd KS Ej) (pscale (2 ^ P) Iq)) c0s ->
    pnorm sj <= Sb ->
    pnorm Ej <= envj ->
    phj =
    padd (padd (pmul sj (pscale r (sigmaE g m2))) (padd (pmul sj (padd (sigmaE g e0) Eks)) Ej))
      (pscale (2 ^ P) (padd Iq (pmul sj (padd (sigmaE g I0) Iks)))) /\
    pnorm (padd (pmul sj (padd (sigmaE g e0) Eks)) Ej) <= Z.of_nat n * Sb * (pnorm e0 + pnorm Eks) + envj.
Proof. exact ggsw_automorphism_cells_lemma. Qed.
Print Assumptions C04_ggsw_automorphism_cells.

(* (6) Gadget.glwe_external_product (input radix = GGSW radix) with the final normalisation; per-column normalize_value_ok is a hypothesis *)
Theorem C04_glwe_external_product_phase_final :
  forall (be P b rb : Z) (n msize a_size res_size dsize dnum : nat) (a : cols_t) (K : pmat) (sk : list (list Z)) (m2 : list Z)
      (e I : nat -> nat -> list Z) (Sb : Z),
    wf_cols n (S (length sk)) a_size a ->
    wf_pmat_in n (dnum * S (length sk)) (msize * S (length sk)) K ->
    (1 <= n)%nat ->
    (1 <= dsize)%nat ->
    (dsize - 2 <= msize)%nat ->
    (forall s : list Z, In s sk -> length s = n) ->
    (forall s : list Z, In s sk -> pnorm s <= Sb) ->
    length m2 = n ->
    (forall row ci : nat, length (e row ci) = n) ->
    (forall row ci : nat, length (I row ci) = n) ->
    0 <= b ->
    Z.of_nat msize * b <= P ->
    Z.of_nat dnum * Z.of_nat dsize * b <= P ->
    C04_ggsw_cells P b n (length sk) msize dsize dnum K sk m2 e I ->
    (forall big : cols_t,
     gadget_product n (S (length sk)) msize (zcols n (S (length sk)) msize) a a_size dsize dnum msize false K = Some big ->
     forall co : nat, (co < S (length sk))%nat -> normalize_value_ok (wbig be) P n rb b res_size (col big co)) ->
    exists (res : cols_t) (R Itot : list Z),
      glwe_external_product be n b b rb (length sk) a_size res_size dsize dnum msize a K = Some res /\
      wf_cols n (S (length sk)) res_size res /\
      length R = n /\
      length Itot = n /\
      phase_val P rb n sk res =
      padd
        (padd
           (padd (pmul m2 (phase_f P b n (S (length sk)) (Nat.min a_size (dnum * dsize)) (acol n a) (sk_ext n sk)))
              (gadget_err P b n (S (length sk)) (S (length sk)) msize dsize dnum (acol n a) K (sk_ext n sk) e)) R) (pscale (2 ^ P) Itot) /\
      pnorm R <= (1 + Z.of_nat (length sk) * Z.of_nat n * Sb) * 2 ^ (P - Z.of_nat res_size * rb).
Proof. exact C04_glwe_external_product_phase_final_lemma. Qed.
Print Assumptions C04_glwe_external_product_phase_final.

(* C04_ggsw_cells: cell (row, col) of a GGSW of m2 under sk decrypts to m2 2^(P-(row+1) dsize b) (col = 0) resp.
   s_{col-1} (x) m2 2^(..) (col >= 1) plus its error e_{row,col} (phase convention ct[0] + sum ct[i+1] (x) s_i: the sign is +).
   It is the HYPOTHESIS of the phase theorems; the oracle (codes 4020 / 4021..4033) checks it on every GGSW the library produces. *)
Theorem C04_ggsw_cells :
  forall (P b : Z) (n rank msize dsize dnum : nat) (K : pmat) (sk : list (list Z)) (m2 : list Z) (e I : nat -> nat -> list Z),
    C04Phase.C04_ggsw_cells P b n rank msize dsize dnum K sk m2 e I <->
    (forall row ci, (row < dnum)%nat -> (ci < S rank)%nat ->
       kphase P b n (S rank) msize K (sk_ext n sk) (row * S rank + ci)%nat
       = padd (padd (pscale (2 ^ (P - (Z.of_nat row + 1) * Z.of_nat dsize * b)) (pmul m2 (sk_ext n sk ci))) (e row ci))
              (pscale (2 ^ P) (I row ci))).
Proof. exact C04_ggsw_cells_meaning_lemma. Qed.
Print Assumptions C04_ggsw_cells.

(* ---- the hypotheses are satisfiable: a concrete small instance (definitions ex*_ in the Proofs file), and the model run on it ---- *)
Example C04_hypotheses_satisfiable :
  wf_cols 2 2 2 ex4_ct /\ wf_pmat_in 2 (2 * 2) (2 * 2) (ex4_K ex4_m2) /\ (1 <= 1)%nat /\ (1 - 2 <= 2)%nat /\
  (forall co, length (sk_ext 2 ex4_sk co) = 2%nat) /\ length ex4_m2 = 2%nat /\
  (forall row ci, length (ex4_zero row ci) = 2%nat) /\ 0 <= 4 /\ Z.of_nat 2 * 4 <= 8 /\ Z.of_nat 2 * Z.of_nat 1 * 4 <= 8 /\
  C04Phase.C04_ggsw_cells 8 4 2 1 2 1 2 (ex4_K ex4_m2) ex4_sk ex4_m2 ex4_zero ex4_zero.
Proof. exact C04_hypotheses_satisfiable_lemma. Qed.

Example C04_instance_runs :
  exists res, gadget_product 2 2 2 (zcols 2 2 2) ex4_ct 2 1 2 2 false (ex4_K ex4_m2) = Some res /\
    phase_f 8 4 2 2 2 (limbs_of res) (sk_ext 2 ex4_sk)
    = padd (padd (pmul ex4_m2 (phase_f 8 4 2 2 (Nat.min 2 (2 * 1)) (acol 2 ex4_ct) (sk_ext 2 ex4_sk)))
                 (gadget_err 8 4 2 2 2 2 1 2 (acol 2 ex4_ct) (ex4_K ex4_m2) (sk_ext 2 ex4_sk) ex4_zero))
           (pscale (2 ^ 8) (gadget_int 4 2 2 2 2 1 2 (acol 2 ex4_ct) (ex4_K ex4_m2) (sk_ext 2 ex4_sk) ex4_zero)).
Proof. exact C04_instance_runs_lemma. Qed.

Example C04_cmux_hypotheses_satisfiable :
  (1 <= 2)%nat /\ wf_cols 2 2 2 ex4_ct /\ wf_cols 2 2 2 ex4_f /\ length (zcols 2 2 2) = 2%nat /\ (forall co, (co < 2)%nat -> length (col (zcols 2 2 2) co) = 2%nat) /\
  wf_pmat_in 2 (2 * 2) (2 * 2) (ex4_K (pscale 1 (pone 2))) /\
  key_rows_ok 8 4 2 2 2 2 1 2 (ex4_K (pscale 1 (pone 2))) (sk_ext 2 ex4_sk) (fun ci => pmul (pscale 1 (pone 2)) (sk_ext 2 ex4_sk ci)) ex4_zero ex4_zero /\
  (1 = 0 \/ 1 = 1) /\ (1 = 1 -> (2 <= Nat.min 2 (2 * 1))%nat /\ (2 <= 2)%nat).
Proof. exact C04_cmux_hypotheses_satisfiable_lemma. Qed.

Example C04_ggsw_body_satisfiable : ggsw_body_ok 8 4 2 1 2 1 2 (ex4_K ex4_m2) (sk_ext 2 ex4_sk) ex4_m2 ex4_zero ex4_zero.
Proof. exact ggsw_body_satisfiable_lemma. Qed.

Example C04_expand_row_hypotheses_satisfiable :
  wf_cols 2 2 2 ex5_ct0 /\ wf_pmat_in 2 (1 * 1) (2 * 2) ex5_K /\ (2 <= 1 * 2)%nat /\
  sk_ext 2 ex5_sk 0 = pone 2 /\
  key_rows_ok 8 4 2 1 2 2 2 1 ex5_K (sk_ext 2 ex5_sk) (fun i => pmul (sk_ext 2 ex5_sk (S i)) (sk_ext 2 ex5_sk 1)) ex5_zero ex5_zero /\
  phase_f 8 4 2 2 2 (acol 2 ex5_ct0) (sk_ext 2 ex5_sk)
  = padd (padd (phase_f 8 4 2 2 2 (acol 2 ex5_ct0) (sk_ext 2 ex5_sk)) (pzero 2)) (pscale (2 ^ 8) (pzero 2)).
Proof. exact expand_row_hypotheses_satisfiable_lemma. Qed.
