(* C04 — external products, CMux, GGSW expansion.  Pinned statements only. *)
From PV Require Import Base.MachineInt Model.Znx Model.Limbs Model.Flat Model.Ring Model.Poly Model.DftAbs Model.Gadget Model.GadgetOracle Model.C04Run.
Open Scope Z_scope.

Theorem C04_placeholder : digit_bound 3 2 = 36.
Proof. reflexivity. Qed.
Print Assumptions C04_placeholder.
