(* C15 — encrypted integers: bootstrap, word operations and bit surgery match u32.
   This file holds only pinned statements, `exact` proofs, Print Assumptions and Examples.

   Reading guide
   * A ciphertext is represented by its *ideal plaintext*: the polynomial of Z[X]/(X^n+1), n = 2^logn, it decrypts to
     when every error term is below the decoding threshold ([poly] = coefficient index -> coefficient, meaningful on
     [0, n)); a prepared GGSW by the bit it encrypts.  Model/C15Uint.v transcribes FheUint's operations on these
     (p_rot = glwe_rotate, p_trace = glwe_trace, pack = glwe_pack, ...).
   * [std_wty lb] is the word type with LOG_BYTES = lb (u8, u16, u32, u64, u128 for lb = 0..4): BITS = 8 * 2^lb,
     LOG_BITS = lb + 3 and the trait's bit_index; [wtypes] are the word types *generated* from
     bdd_arithmetic/mod.rs on this run (Gen/C15_gen.v) and [C15_wtypes_are_std] says they are exactly those.
   * [cidx T logn i] = T::bit_index(i) << log_gap is the coefficient that holds bit i.
   * Noise is an explicit side condition: the predicates [quiet*] ("the accumulated error of this object is below its
     decoding threshold") are premises, never conclusions; the harness measures the margin at the test parameter set. *)
From Coq Require Import ZArith List Bool Lia.
From PV Require Import Model.Znx Model.Flat Model.DftAbs Model.Gadget Model.GadgetSpec Proofs.C07Ring.
From PV Require Import Gen.C15_gen Model.C13Bdd Model.C15Uint Model.C15Cbt Model.C15Word
  Proofs.C13Circuits Proofs.C15Layout Proofs.C15Surgery Proofs.C15WordProof Proofs.C15CbtProof Proofs.C15Blind
  Proofs.C15Examples Proofs.C15CbtGeneral Proofs.C15Retriever Proofs.C15Discharge.
Import ListNotations.
Open Scope Z_scope.

(** * Bit layout *)

Theorem C15_wtypes_are_std : wtypes = map std_wty [0; 1; 2; 3; 4].
Proof. exact wtypes_std. Qed.
Print Assumptions C15_wtypes_are_std.

(* for every generated word type, bit_index is a bijection on [0, BITS) *)
Theorem C15_bit_index_bijective : Forall (fun T =>
    (forall i, 0 <= i < w_bits T -> 0 <= w_bidx T i < w_bits T) /\
    (forall i j, 0 <= i < w_bits T -> 0 <= j < w_bits T -> w_bidx T i = w_bidx T j -> i = j) /\
    (forall c, 0 <= c < w_bits T -> exists i, 0 <= i < w_bits T /\ w_bidx T i = c)) wtypes.
Proof. exact bit_index_bijective_gen. Qed.
Print Assumptions C15_bit_index_bijective.

(* the trait's formula for every LOG_BYTES: a bijection of [0, 8 * 2^lb) with an explicit inverse *)
Theorem C15_bit_index_formula : forall lb i, 0 <= lb -> 0 <= i < 8 * 2 ^ lb ->
  bit_index lb i = (i mod 8) * 2 ^ lb + i / 8 /\ 0 <= bit_index lb i < 8 * 2 ^ lb /\ bit_index_inv lb (bit_index lb i) = i.
Proof. exact bit_index_formula. Qed.
Print Assumptions C15_bit_index_formula.

(* encrypt then decrypt; which coefficient holds which bit; nothing anywhere else *)
Theorem C15_pack_get_bit_roundtrip : forall lb logn, 0 <= lb -> lb + 3 <= logn ->
  let T := std_wty lb in
  (forall w, 0 <= w < 2 ^ (8 * 2 ^ lb) -> p_dec T logn (p_enc T logn w) = w) /\
  (forall w i, 0 <= i < 8 * 2 ^ lb -> p_enc T logn w (cidx T logn i) = bitz w i) /\
  (forall w j, (forall i, 0 <= i < 8 * 2 ^ lb -> cidx T logn i <> j) -> p_enc T logn w j = 0) /\
  (forall w bit j, 0 <= bit < 8 * 2 ^ lb -> 0 <= j < 2 ^ logn ->
     get_bit_glwe T logn bit (p_enc T logn w) j = if j =? 0 then bitz w bit else 0) /\
  (forall w bit, 0 <= bit < 8 * 2 ^ lb -> get_bit_lwe T logn bit (p_enc T logn w) = bitz w bit) /\
  (forall w y j, 0 <= y < 2 ^ lb -> 0 <= j < 2 ^ logn ->
     get_byte T logn y (p_enc T logn w) j =
       if j mod (2 ^ lb * 2 ^ (logn - (lb + 3))) =? 0 then bitz w (8 * y + j / (2 ^ lb * 2 ^ (logn - (lb + 3)))) else 0) /\
  (forall bs : list bool, length bs = nbits T ->
     exists q, pack T logn (map (fun b : bool => p_const (if b then 1 else 0)) bs) = Some q /\
       p_dec T logn q = word_of_bits (nbits T) (fun i => nth (Z.to_nat i) bs false) /\
       forall k j, (k < nbits T)%nat -> 0 <= j < 2 ^ logn ->
         get_bit_glwe T logn (Z.of_nat k) q j = if j =? 0 then Z.b2z (nth k bs false) else 0).
Proof. exact roundtrip_all. Qed.
Print Assumptions C15_pack_get_bit_roundtrip.

(** * Bit surgery *)

(* zero_byte and splice_u8 coefficient by coefficient, for arbitrary ciphertexts a, b *)
Theorem C15_splice_u8_coefficients : forall lb logn, 0 <= lb -> lb + 3 <= logn ->
  forall dst src (a b : poly), 0 <= dst < 2 ^ lb -> 0 <= src < 2 ^ lb ->
  let gap := 2 ^ (logn - (lb + 3)) in
  (forall j, 0 <= j < 2 ^ logn ->
     zero_byte (std_wty lb) logn dst a j = if (j - dst * gap) mod (2 ^ lb * gap) =? 0 then 0 else a j) /\
  exists r, splice_u8 (std_wty lb) logn dst src a b = Some r /\
    forall j, 0 <= j < 2 ^ logn ->
      r j = if (j - dst * gap) mod (2 ^ lb * gap) =? 0 then b (j - dst * gap + src * gap) else a j.
Proof. exact splice_coeffs_all. Qed.
Print Assumptions C15_splice_u8_coefficients.

(* byte dst of the result is byte src of b, every other byte is a's; halfword likewise *)
Theorem C15_splice_positions : forall lb logn, 0 <= lb -> lb + 3 <= logn -> forall wa wb,
  let T := std_wty lb in
  (forall dst src, 0 <= dst < 2 ^ lb -> 0 <= src < 2 ^ lb ->
     exists r, splice_u8 T logn dst src (p_enc T logn wa) (p_enc T logn wb) = Some r /\
       forall i, 0 <= i < 8 * 2 ^ lb ->
         Z.testbit (p_dec T logn r) i = if i / 8 =? dst then Z.testbit wb (8 * src + i mod 8) else Z.testbit wa i) /\
  (forall dst src, 0 <= dst -> 2 * dst + 1 < 2 ^ lb -> 0 <= src -> 2 * src + 1 < 2 ^ lb ->
     exists r, splice_u16 T logn dst src (p_enc T logn wa) (p_enc T logn wb) = Some r /\
       forall i, 0 <= i < 8 * 2 ^ lb ->
         Z.testbit (p_dec T logn r) i = if i / 16 =? dst then Z.testbit wb (16 * src + i mod 16) else Z.testbit wa i).
Proof. exact splice_positions_all. Qed.
Print Assumptions C15_splice_positions.

(* sext(byte y): the bytes above y are filled with bit 8y+7 (the sign bit), everything else is unchanged *)
Theorem C15_sext_positions : forall lb logn, 0 <= lb -> lb + 3 <= logn -> forall y w, 0 <= y < 2 ^ lb ->
  exists r, sext (std_wty lb) logn y (p_enc (std_wty lb) logn w) = Some r /\
    forall i, 0 <= i < 8 * 2 ^ lb ->
      Z.testbit (p_dec (std_wty lb) logn r) i = if y <? i / 8 then Z.testbit w (8 * y + 7) else Z.testbit w i.
Proof. exact sext_bits. Qed.
Print Assumptions C15_sext_positions.

(* cswap: (b - a) * bit + a and b - (b - a) * bit exchange the two values exactly when the bit is set *)
Theorem C15_swap_positions : forall (bit : bool) a b, cswap bit (a, b) = if bit then (b, a) else (a, b).
Proof. exact cswap_spec. Qed.
Print Assumptions C15_swap_positions.

(** * Blind selection / retrieval address (k >> bit_rsh) mod 2^bit_mask *)

Theorem C15_selection_index : forall kw rsh mask (m : fmap), 0 <= rsh -> 0 <= mask -> rsh + mask <= 32 ->
  glwe_blind_selection 32 (bits_of 32 kw) rsh mask m = Some (den (m ((kw / 2 ^ rsh) mod 2 ^ mask))).
Proof. exact selection_index. Qed.
Print Assumptions C15_selection_index.

Theorem C15_retrieval_index : forall kw rsh mask (l : list Z), 0 <= rsh -> 0 <= mask -> rsh + mask <= 32 ->
  (kw / 2 ^ rsh) mod 2 ^ mask < Z.of_nat (length l) ->
  exists l', blind_retrieval (bits_of 32 kw) rsh mask l = Some l' /\ length l' = length l /\
             lget l' 0 = lget l ((kw / 2 ^ rsh) mod 2 ^ mask).
Proof. exact retrieval_index. Qed.
Print Assumptions C15_retrieval_index.

(* glwe_blind_rotation multiplies by X^(+-((k >> bit_rsh) mod 2^bit_mask) << bit_lsh) (negacyclic, every coefficient) *)
Theorem C15_blind_rotation_amount : forall n kw (sign : bool) rsh mask lsh (a : poly),
  0 < n -> 0 <= rsh -> 0 <= mask -> 0 <= lsh -> rsh + mask <= 32 ->
  exists r, glwe_blind_rotation n (bits_of 32 kw) sign rsh mask lsh a = Some r /\
            forall j, 0 <= j < n ->
              r j = p_rot n ((if sign then 1 else -1) * (((kw / 2 ^ rsh) mod 2 ^ mask) * 2 ^ lsh)) a j.
Proof. exact blind_rotation_amount. Qed.
Print Assumptions C15_blind_rotation_amount.

(* the streaming GLWEBlindRetriever (binary-counter accumulation, then flush): for every capacity (size 0 and 1 included:
   at least one accumulator since /repo 38e6b0c), every number of
   inputs 1 <= len <= 2^L and every selector, retrieve returns the input at index (k >> offset) mod 2^L *)
Theorem C15_retriever_index_full : forall size kw offset (data : list Z),
  0 <= size <= 2 ^ 31 -> 0 <= offset -> offset + retr_nacc size <= 32 ->
  Z.of_nat (length data) <= 2 ^ retr_nacc size ->
  (kw / 2 ^ offset) mod 2 ^ retr_nacc size < Z.of_nat (length data) ->
  retrieve size (bits_of 32 kw) offset data = Some (lget data ((kw / 2 ^ offset) mod 2 ^ retr_nacc size)).
Proof. exact retriever_index. Qed.
Print Assumptions C15_retriever_index_full.

(* HISTORIES: one GLWEBlindRetriever object (Model/C15Uint.v: r_alloc, r_add, r_flush, r_reset, r_retrieve as the code has
   them — reset clears every num and the counter, the data words stay) through any list of complete rounds, each either
   retrieve(data, k, offset) (kind 0) or add(every input) ; flush (kind 1), with 1 <= len <= 2^L inputs and an index inside
   them: every round returns data[(k >> offset) mod 2^L], and the retriever is clean again after each round
   (counter 0, every num 0, L accumulators) — in particular an earlier round never influences a later one *)
Theorem C15_retriever_history : forall (size : Z) (rounds : list (Z * Z * Z * list Z)),
  Forall (fun r => let '(kind, kw, off, data) := r in
            (kind = 0 \/ kind = 1) /\ 0 <= off /\ off + retr_nacc size <= 32 /\
            Z.of_nat (length data) <= 2 ^ retr_nacc size /\
            (kw / 2 ^ off) mod 2 ^ retr_nacc size < Z.of_nat (length data)) rounds ->
  forall st,
  (r_cnt st = 0 /\ Forall (fun dn : Z * Z => snd dn = 0) (r_acc st) /\ Z.of_nat (length (r_acc st)) = retr_nacc size) ->
  exists st',
    r_history (map (fun r => let '(kind, kw, off, data) := r in (kind, bits_of 32 kw, off, data)) rounds) st =
      Some (map (fun r => let '(kind, kw, off, data) := r in lget data ((kw / 2 ^ off) mod 2 ^ retr_nacc size)) rounds, st') /\
    (r_cnt st' = 0 /\ Forall (fun dn : Z * Z => snd dn = 0) (r_acc st') /\ Z.of_nat (length (r_acc st')) = retr_nacc size).
Proof. exact retriever_history. Qed.
Print Assumptions C15_retriever_history.

(* a freshly allocated retriever is clean *)
Theorem C15_retriever_alloc_clean : forall size,
  r_cnt (r_alloc size) = 0 /\ Forall (fun dn : Z * Z => snd dn = 0) (r_acc (r_alloc size)) /\
  Z.of_nat (length (r_acc (r_alloc size))) = retr_nacc size.
Proof. exact alloc_clean. Qed.
Print Assumptions C15_retriever_alloc_clean.

(* the reverse butterfly glwe_blind_retrieval_statefull_rev is covered by the correspondence check only *)

(** * Word operations *)

(* the homomorphic evaluator of eval.rs refines C13's eval_stale on the bits the selectors encrypt *)
Theorem C15_heval_refines_eval_stale :
  forall (glwe ggsw : Type) (cmux : glwe -> glwe -> ggsw -> glwe) (ct_zero ct_one : glwe)
         (enc_bit : glwe -> bool -> Prop) (enc_sel : ggsw -> bool -> Prop) (quiet : glwe -> Prop),
  enc_bit ct_zero false -> enc_bit ct_one true ->
  (* cmux_selects (C04) *)
  (forall t f s bt bf b, enc_bit t bt -> enc_bit f bf -> enc_sel s b -> quiet (cmux t f s) ->
                         enc_bit (cmux t f s) (if b then bt else bf)) ->
  forall (c : circuit) (s : nat -> ggsw) (e : nat -> bool) (nb : nat),
  exec_safe nb c = true -> (forall v, (v < nb)%nat -> enc_sel (s v) (e v)) ->
  Forall quiet (snd (heval glwe ggsw cmux ct_zero ct_one c s)) ->
  enc_bit (fst (heval glwe ggsw cmux ct_zero ct_one c s)) (eval_stale c e).
Proof. exact heval_correct. Qed.
Print Assumptions C15_heval_refines_eval_stale.

(* the hypothesis cmux_selects DISCHARGED against C04's phase theorem.  Ciphertexts come with their phase (n coefficients
   scaled by 2^P, as Gadget.phase_val), Delta = 2^(P-2) encodes a bit at coefficient 0;
     enc_c c q   := every coefficient of phase c is strictly within Delta/2 of Delta * q       (c decodes to q)
     quiet_c c   := phase c is within Delta/2 - BE of the encoding of some bit                  (noise side condition)
   If cmux satisfies the phase equation that C04_cmux_selects proves (selected input + error polynomial bounded by BE,
   modulo 2^P), the evaluator of eval.rs refines eval_stale.  What remains is noise only: the bound BE on one cmux's error
   polynomial (gadget error + final rounding) and quiet_c of every intermediate ciphertext. *)
Theorem C15_heval_refines_eval_stale_phase :
  forall (glwe ggsw : Type) (phase : glwe -> list Z) (n : nat) (P BE : Z) (cmux : glwe -> glwe -> ggsw -> glwe)
         (enc_sel : ggsw -> bool -> Prop) (ct_zero ct_one : glwe),
  3 <= P -> 0 <= BE -> (1 <= n)%nat ->
  (forall t f s b, enc_sel s b ->
     exists E I : list Z, (forall k, Z.abs (nth k E 0) <= BE) /\
       forall k, (k < n)%nat ->
         nth k (phase (cmux t f s)) 0 = nth k (phase (if b then t else f)) 0 + nth k E 0 + 2 ^ P * nth k I 0) ->
  enc_c glwe phase n P ct_zero (p_const 0) -> enc_c glwe phase n P ct_one (p_const 1) ->
  forall (c : circuit) (s : nat -> ggsw) (e : nat -> bool) (nb : nat),
  exec_safe nb c = true -> (forall v, (v < nb)%nat -> enc_sel (s v) (e v)) ->
  Forall (quiet_c glwe phase n P BE) (snd (heval glwe ggsw cmux ct_zero ct_one c s)) ->
  enc_c glwe phase n P (fst (heval glwe ggsw cmux ct_zero ct_one c s)) (p_const (if eval_stale c e then 1 else 0)).
Proof. exact heval_correct_of_phase. Qed.
Print Assumptions C15_heval_refines_eval_stale_phase.

(* the phase equation itself, for the model Gadget.cmux of the real code (C04_cmux_selects, coefficient by coefficient,
   before the final normalisation whose rounding term is C03_normalize_cols_phase's R): the selector's GGSW cells
   (C04_ggsw_cells / key_rows_ok) encrypt bit in {0, 1}; E is C04's gadget_err *)
Theorem C15_cmux_phase_from_C04 :
  forall (be P b : Z) (n rank res_size t_size f_size dsize dnum msize : nat) (res0 t f : cols_t) (K : pmat)
         (Sk : nat -> list Z) (bit : Z) (e I : nat -> nat -> list Z),
    (1 <= n)%nat ->
    wf_cols n (S rank) t_size t -> wf_cols n (S rank) f_size f ->
    length res0 = S rank -> (forall co : nat, (co < S rank)%nat -> length (col res0 co) = msize) ->
    wf_pmat_in n (dnum * S rank) (msize * S rank) K ->
    (1 <= dsize)%nat -> (dsize - 2 <= msize)%nat ->
    (forall co : nat, length (Sk co) = n) ->
    (forall row ci : nat, length (e row ci) = n) -> (forall row ci : nat, length (I row ci) = n) ->
    0 <= b -> Z.of_nat msize * b <= P -> Z.of_nat dnum * Z.of_nat dsize * b <= P ->
    key_rows_ok P b n (S rank) (S rank) msize dsize dnum K Sk
      (fun ci : nat => pmul (pscale bit (pone n)) (Sk ci)) e I ->
    bit = 0 \/ bit = 1 ->
    (bit = 1 -> (f_size <= Nat.min res_size (dnum * dsize))%nat /\ (f_size <= msize)%nat) ->
    exists (big : cols_t) (E Iq : list Z),
      cmux be n b rank res_size t_size f_size dsize dnum msize res0 t f K =
        sequence (map (big_normalize (wbig be) n b b res_size) (map2 add_small big f)) /\
      E = gadget_err P b n (S rank) (S rank) msize dsize dnum
            (acol n (map2 (col_sub n res_size) t f)) K Sk e /\
      length E = n /\ length Iq = n /\
      forall k, (k < n)%nat ->
        nth k (phase_f P b n (S rank) msize (limbs_of (map2 add_small big f)) Sk) 0 =
        nth k (if bit =? 1 then phase_f P b n (S rank) (Nat.min res_size (dnum * dsize)) (acol n t) Sk
               else phase_f P b n (S rank) (Nat.min msize f_size) (acol n f) Sk) 0
        + nth k E 0 + 2 ^ P * nth k Iq 0.
Proof. exact cmux_phase_pointwise. Qed.
Print Assumptions C15_cmux_phase_from_C04.

(* packed encryption -> prepare (circuit bootstrapping of every bit) -> one of the ten compiled two-word circuits ->
   repack decrypts to the RISC-V word operation of C13 ((a+b) mod 2^32, a << (b & 31), signed <, ...) *)
Theorem C15_word_op_correct :
  forall (glwe ggsw lwe : Type) (cmux : glwe -> glwe -> ggsw -> glwe) (ct_zero ct_one : glwe)
         (get_lwe : glwe -> Z -> lwe) (cbt : lwe -> ggsw) (gpack : list glwe -> glwe) (decrypt : glwe -> Z) (logn : Z),
  5 <= logn ->
  forall (enc_poly : glwe -> poly -> Prop) (lwe_msg : lwe -> Z -> Prop) (enc_sel : ggsw -> bool -> Prop)
         (quiet : glwe -> Prop) (quiet_lwe : lwe -> Prop) (quiet_ggsw : ggsw -> Prop),
  enc_poly ct_zero (p_const 0) -> enc_poly ct_one (p_const 1) ->
  (* cmux_selects (C04) *)
  (forall t f s (bt bf b : bool),
     enc_poly t (p_const (if bt then 1 else 0)) -> enc_poly f (p_const (if bf then 1 else 0)) -> enc_sel s b ->
     quiet (cmux t f s) -> enc_poly (cmux t f s) (p_const (if (if b then bt else bf) then 1 else 0))) ->
  (* key-switch + sample extraction (C03) *)
  (forall c q i, enc_poly c q -> 0 <= i < 32 -> quiet_lwe (get_lwe c i) -> lwe_msg (get_lwe c i) (get_bit_lwe (std_wty 2) logn i q)) ->
  (* circuit bootstrapping, constant mode (C15_circuit_bootstrap_cells) + ggsw_prepare *)
  (forall l m b, lwe_msg l m -> cb_bit m = Some b -> quiet_ggsw (cbt l) -> enc_sel (cbt l) b) ->
  (* glwe_pack (C03) *)
  (forall cts qs q, Forall2 enc_poly cts qs -> pack (std_wty 2) logn qs = Some q -> quiet (gpack cts) -> enc_poly (gpack cts) q) ->
  (* decryption (C01) *)
  (forall c q, enc_poly c q -> quiet c -> decrypt c = p_dec (std_wty 2) logn q) ->
  forall (o : wop) (a b : Z) (ca cb : glwe),
  0 <= a < 2 ^ 32 -> 0 <= b < 2 ^ 32 ->
  enc_poly ca (p_enc (std_wty 2) logn a) -> enc_poly cb (p_enc (std_wty 2) logn b) ->
  (* every intermediate phase stays below its decoding threshold *)
  operand_quiet glwe ggsw lwe get_lwe cbt quiet_lwe quiet_ggsw ca ->
  operand_quiet glwe ggsw lwe get_lwe cbt quiet_lwe quiet_ggsw cb ->
  let res := hop2 glwe ggsw cmux ct_zero ct_one lwe get_lwe cbt gpack (wop_circ o) ca cb in
  Forall quiet (snd res) -> quiet (fst res) ->
  decrypt (fst res) = wop_fun o a b.
Proof. exact word_op_correct. Qed.
Print Assumptions C15_word_op_correct.

Theorem C15_identity_correct :
  forall (glwe ggsw lwe : Type) (cmux : glwe -> glwe -> ggsw -> glwe) (ct_zero ct_one : glwe)
         (get_lwe : glwe -> Z -> lwe) (cbt : lwe -> ggsw) (gpack : list glwe -> glwe) (decrypt : glwe -> Z) (logn : Z),
  5 <= logn ->
  forall (enc_poly : glwe -> poly -> Prop) (lwe_msg : lwe -> Z -> Prop) (enc_sel : ggsw -> bool -> Prop)
         (quiet : glwe -> Prop) (quiet_lwe : lwe -> Prop) (quiet_ggsw : ggsw -> Prop),
  enc_poly ct_zero (p_const 0) -> enc_poly ct_one (p_const 1) ->
  (forall t f s (bt bf b : bool),
     enc_poly t (p_const (if bt then 1 else 0)) -> enc_poly f (p_const (if bf then 1 else 0)) -> enc_sel s b ->
     quiet (cmux t f s) -> enc_poly (cmux t f s) (p_const (if (if b then bt else bf) then 1 else 0))) ->
  (forall c q i, enc_poly c q -> 0 <= i < 32 -> quiet_lwe (get_lwe c i) -> lwe_msg (get_lwe c i) (get_bit_lwe (std_wty 2) logn i q)) ->
  (forall l m b, lwe_msg l m -> cb_bit m = Some b -> quiet_ggsw (cbt l) -> enc_sel (cbt l) b) ->
  (forall cts qs q, Forall2 enc_poly cts qs -> pack (std_wty 2) logn qs = Some q -> quiet (gpack cts) -> enc_poly (gpack cts) q) ->
  (forall c q, enc_poly c q -> quiet c -> decrypt c = p_dec (std_wty 2) logn q) ->
  forall (a : Z) (ca : glwe),
  0 <= a < 2 ^ 32 -> enc_poly ca (p_enc (std_wty 2) logn a) ->
  operand_quiet glwe ggsw lwe get_lwe cbt quiet_lwe quiet_ggsw ca ->
  let res := hop1 glwe ggsw cmux ct_zero ct_one lwe get_lwe cbt gpack circuit_identity ca in
  Forall quiet (snd res) -> quiet (fst res) ->
  decrypt (fst res) = a.
Proof. exact identity_correct. Qed.
Print Assumptions C15_identity_correct.

(** * Circuit bootstrapping *)

(* blind rotation (C14), rotation (C02), trace / post_process (C03) and GGLWE -> GGSW expansion (C04) compose into:
   every cell (row, col) of the output GGSW encrypts the message of the input LWE — the constant m, or the monomial
   X^(m * 2^log_gap_out) in exponent mode — on every parameter set whose ideal rows decode to that message *)
Theorem C15_circuit_bootstrap_cells :
  forall (lwe glwe ggsw : Type) (blind_rotate : lwe -> glwe) (g_rot g_trace : Z -> glwe -> glwe)
         (g_post : glwe -> glwe) (g_expand : list glwe -> ggsw) (logn base2k dnum rank bb : Z) (expo : bool) (ld lgo : Z),
  0 <= dnum ->
  forall (lwe_msg : lwe -> Z -> Prop) (enc_poly : glwe -> poly -> Prop) (cell_enc : ggsw -> Z -> Z -> poly -> Prop)
         (quiet : glwe -> Prop) (quiet_ggsw : ggsw -> Prop),
  (* blind_rotation_phase, lut_set_then_rotate_selects (C14) *)
  (forall l m, lwe_msg l m -> 0 <= m < 2 ^ ld -> quiet (blind_rotate l) ->
               enc_poly (blind_rotate l) (br_acc logn base2k dnum bb expo ld m)) ->
  (* phase_rotate (C02) *)
  (forall k c q, enc_poly c q -> enc_poly (g_rot k c) (p_rot (2 ^ logn) k q)) ->
  (* trace (C03) *)
  (forall skip c q, enc_poly c q -> quiet (g_trace skip c) -> enc_poly (g_trace skip c) (p_trace (2 ^ logn) skip q)) ->
  (* trace + rotate + pack of post_process (C03) *)
  (forall c q q', enc_poly c q -> post_process logn dnum ld lgo q = Some q' -> quiet (g_post c) -> enc_poly (g_post c) q') ->
  (* GGLWE -> GGSW (C04) *)
  (forall rows (mp : poly), length rows = Z.to_nat dnum ->
     (forall i, 0 <= i < dnum -> exists c q, nth_error rows (Z.to_nat i) = Some c /\ enc_poly c q /\
                                             forall j, 0 <= j < 2 ^ logn -> row_decoded base2k dnum bb i q j = mp j) ->
     quiet_ggsw (g_expand rows) ->
     forall row col, 0 <= row < dnum -> 0 <= col <= rank -> cell_enc (g_expand rows) row col mp) ->
  forall l m, lwe_msg l m -> 0 <= m < 2 ^ ld ->
  cbt_rows_ok logn base2k dnum bb expo ld lgo m = true ->
  cbt_quiet lwe glwe ggsw blind_rotate g_rot g_trace g_post g_expand logn dnum expo ld quiet quiet_ggsw l ->
  forall row col, 0 <= row < dnum -> 0 <= col <= rank ->
    cell_enc (cbt_ct lwe glwe ggsw blind_rotate g_rot g_trace g_post g_expand logn dnum expo ld l) row col (cand logn expo lgo m).
Proof. exact circuit_bootstrap_cells. Qed.
Print Assumptions C15_circuit_bootstrap_cells.

(* the premise [cbt_rows_ok] at the crate's test parameter set (N = 256, base2k = 13, dnum = 2, blind-rotation radix 12): constant mode for
   log_domain 1, 2 and every message; exponent mode through both branches of post_process (packing, and trace only
   when log_gap_out = log_gap_in — the branch repaired by /repo commit b689fc8) *)
Theorem C15_cbt_rows_ok_partial :
  forallb (fun ld => forallb (fun m => cbt_rows_ok 8 13 2 12 false ld 0 m) (zseq 0 (Z.to_nat (2 ^ ld)))) [1; 2] = true /\
  (log_gap_in 8 2 1 = 7 /\ log_gap_in 8 2 2 = 6 /\
   forallb (fun lgo => forallb (fun m => cbt_rows_ok 8 13 2 12 true 1 lgo m) [0; 1]) [0; 1; 2; 3; 4; 5; 6; 7] = true /\
   forallb (fun lgo => forallb (fun m => cbt_rows_ok 8 13 2 12 true 2 lgo m) [0; 1; 2; 3]) [0; 1; 2; 3; 4; 5; 6] = true).
Proof. exact (conj cbt_rows_ok_constant_test cbt_rows_ok_exponent_test). Qed.
Print Assumptions C15_cbt_rows_ok_partial.

(* constant mode (the mode FheUintPrepared::prepare uses) for ALL parameter sets: every ring degree, gadget (base2k, dnum)
   and log_domain with 2^ld * next_pow2(dnum) < 2^logn (the code's assert gap > 0) and ld < base2k, every message *)
Theorem C15_cbt_rows_ok_constant : forall logn base2k dnum bb ld m,
  1 <= dnum -> 0 <= ld -> ld + 1 <= base2k -> 1 <= bb ->
  (* the overflow assert of circuit_bootstrap_core holds (no lookup-table coefficient leaves i64) *)
  cb_asserts base2k dnum bb false ld = true ->
  2 * (2 ^ ld * next_pow2 dnum) <= 2 ^ logn -> 0 <= logn ->
  0 <= m < 2 ^ ld ->
  cbt_rows_ok logn base2k dnum bb false ld 0 m = true.
Proof. exact cbt_rows_ok_constant_general. Qed.
Print Assumptions C15_cbt_rows_ok_constant.

(* the parameter sets whose lookup-table coefficients would leave i64 (1 << 63; 2^60 * scale 2^4; 8 * 2^60) are rejected by
   that assert since /repo a84e8a5 (before the repair every assert passed and row 0 of the GGSW was wrong); the test
   parameter set and res_base2k = 20, dnum = 3 are accepted *)
Theorem C15_cbt_lut_overflow_rejected :
  cb_asserts 21 4 14 false 1 = false /\ cb_row 8 21 4 14 false 1 0 1 0 = None /\
  cb_asserts 20 4 14 false 1 = false /\ cb_asserts 30 3 15 false 4 = false /\ cb_asserts 21 4 14 true 1 = false /\
  cb_asserts 13 2 12 false 1 = true /\ cb_asserts 13 2 12 true 1 = true /\ cb_asserts 20 3 15 false 1 = true.
Proof. exact cbt_lut_overflow_rejected. Qed.
Print Assumptions C15_cbt_lut_overflow_rejected.

(* the full statement: both modes (constant; exponent through both branches of post_process), ALL parameter sets *)
Theorem C15_cbt_rows_ok_full :
  forall logn base2k dnum bb expo ld lgo m,
    1 <= dnum -> 0 <= ld -> ld + 1 <= base2k -> 2 <= base2k -> 1 <= bb ->
    (* the overflow assert of circuit_bootstrap_core *)
    cb_asserts base2k dnum bb expo ld = true ->
    (* the code's assert gap > 0 *)
    2 * (2 ^ ld * next_pow2 dnum) <= 2 ^ logn -> 0 <= logn ->
    (* glwe_pack's assert on the largest key *)
    0 <= lgo -> (2 ^ ld - 1) * 2 ^ lgo < 2 ^ logn ->
    0 <= m < 2 ^ ld ->
    cbt_rows_ok logn base2k dnum bb expo ld lgo m = true.
Proof. exact cbt_rows_ok_general. Qed.
Print Assumptions C15_cbt_rows_ok_full.

(** * Examples: the statements are not vacuous *)

Example C15_ex_layout_u32 : map (bit_index 2) [0; 1; 7; 8; 9; 31] = [0; 4; 28; 1; 5; 31].
Proof. reflexivity. Qed.

(* splice_u8(dst = 2, src = 0) of 0xFFFFFFFF and 0xAABBCCDD at N = 256 decrypts to 0xFFDDFFFF *)
Example C15_ex_splice : option_map (p_dec (std_wty 2) 8)
    (splice_u8 (std_wty 2) 8 2 0 (p_enc (std_wty 2) 8 4294967295) (p_enc (std_wty 2) 8 2864434397)) = Some 4292739071.
Proof. vm_compute. reflexivity. Qed.

(* sext from byte 1 of 0x84838281 is 0xFFFF8281, from byte 1 of 0x44434241 is 0x00004241 (the crate's own test values) *)
Example C15_ex_sext :
  option_map (p_dec (std_wty 2) 8) (sext (std_wty 2) 8 1 (p_enc (std_wty 2) 8 2223211137)) = Some 4294935169 /\
  option_map (p_dec (std_wty 2) 8) (sext (std_wty 2) 8 1 (p_enc (std_wty 2) 8 1145258561)) = Some 16961.
Proof. vm_compute. auto. Qed.

Example C15_ex_selection :
  glwe_blind_selection 32 (bits_of 32 (5 * 8)) 3 3 (fm_set (fm_set fm_empty 5 (Some 77)) 2 (Some 11)) = Some 77.
Proof. vm_compute. reflexivity. Qed.

(* the hypotheses of C15_word_op_correct are satisfiable: the noise-free ideal scheme (a ciphertext is its ideal
   plaintext, cmux t f s = if s then t else f, ...) meets all of them (Proofs/C15Examples.v: ideal_word_hyps), and the
   theorem then gives, for all words and all ten operations: *)
Example C15_ex_word_op_hypotheses_satisfiable : forall logn, 5 <= logn -> forall (o : wop) a b,
  0 <= a < 2 ^ 32 -> 0 <= b < 2 ^ 32 ->
  p_dec (std_wty 2) logn
    (fst (hop2 poly bool i_cmux (p_const 0) (p_const 1) Z (i_get_lwe logn) i_cbt (i_pack logn) (wop_circ o)
            (p_enc (std_wty 2) logn a) (p_enc (std_wty 2) logn b))) = wop_fun o a b.
Proof. exact ideal_word_op. Qed.

(* likewise for C15_circuit_bootstrap_cells *)
Example C15_ex_cbt_hypotheses_satisfiable : forall logn base2k dnum rank bb expo ld lgo, 0 <= dnum -> forall m,
  0 <= m < 2 ^ ld -> cbt_rows_ok logn base2k dnum bb expo ld lgo m = true ->
  forall row col, 0 <= row < dnum -> 0 <= col <= rank ->
    j_cell logn base2k dnum bb
      (cbt_ct Z poly (list poly) (j_blind_rotate logn base2k dnum bb expo ld) (p_rot (2 ^ logn)) (p_trace (2 ^ logn))
              (j_post logn dnum ld lgo) j_expand logn dnum expo ld m)
      row col (cand logn expo lgo m).
Proof. exact ideal_cbt_cells. Qed.

(* a retriever allocated for 8 inputs, used twice on 3 inputs (the case where a stale top accumulator would show) and then
   on 8: every round returns its own data[idx] *)
Example C15_ex_retriever_history :
  option_map fst (r_history [(0, bits_of 32 0, 0, [11; 12; 13]); (0, bits_of 32 1, 0, [21; 22; 23]);
                             (1, bits_of 32 2, 0, [31; 32; 33]); (1, bits_of 32 7, 0, [41; 42; 43; 44; 45; 46; 47; 48])]
                            (r_alloc 8)) = Some [11; 22; 33; 48].
Proof. vm_compute. reflexivity. Qed.
