(* C09 — coefficient-domain ring operations match Z[X]/(X^N+1) exactly.
   Pinned statements only.  Model = Model/Ring.v (code-shaped), Spec = Model/Poly.v (index-wise). *)
From PV Require Import Base.MachineInt Model.Znx Model.Limbs Model.Ring Model.Poly Model.C09Galois
  Proofs.C09Lists Proofs.C09Ring Proofs.C09Sigma Proofs.C09Galois Proofs.C09Inverse Proofs.C09Switch Proofs.C09Size.
Open Scope Z_scope.

Theorem C09_rotate_length : forall w p (a : list Z), length (znx_rotate w p a) = length a.
Proof. exact rotate_length. Qed.
Print Assumptions C09_rotate_length.

(* ---------- 1. rotate = multiplication by X^p (all n, all p in Z, all words) ---------- *)
Theorem C09_rotate_is_monomial_mul : forall (w p : Z) (a : list Z),
  znx_rotate w p a = monomial_mul w p a.
Proof. exact rotate_is_monomial_mul. Qed.
Print Assumptions C09_rotate_is_monomial_mul.

Example C09_ex_rotate :
  znx_rotate 64 (-21) [1; -2; 3; - 2 ^ 63; 5; 6; 2 ^ 63 - 1; 8]
  = [6; 2 ^ 63 - 1; 8; -1; 2; -3; - 2 ^ 63; -5].
Proof. vm_compute. reflexivity. Qed.

(* ---------- 2. Z/2n acts ---------- *)
Theorem C09_monomial_mul_compose : forall (w p q : Z) (a : list Z),
  1 <= w -> Forall (in_range w) a ->
  monomial_mul w p (monomial_mul w q a) = monomial_mul w (p + q) a.
Proof. exact monomial_mul_compose. Qed.
Print Assumptions C09_monomial_mul_compose.

Theorem C09_monomial_mul_0 : forall (w : Z) (a : list Z), monomial_mul w 0 a = a.
Proof. exact monomial_mul_0. Qed.
Print Assumptions C09_monomial_mul_0.

Theorem C09_monomial_mul_2n_id : forall (w : Z) (a : list Z),
  monomial_mul w (2 * Z.of_nat (length a)) a = a.
Proof. exact monomial_mul_2n_id. Qed.
Print Assumptions C09_monomial_mul_2n_id.

Theorem C09_rotate_compose : forall (w p q : Z) (a : list Z),
  1 <= w -> Forall (in_range w) a ->
  znx_rotate w p (znx_rotate w q a) = znx_rotate w (p + q) a.
Proof. exact rotate_compose. Qed.
Print Assumptions C09_rotate_compose.

Theorem C09_rotate_inverse : forall (w p : Z) (a : list Z),
  1 <= w -> Forall (in_range w) a ->
  znx_rotate w (- p) (znx_rotate w p a) = a.
Proof. exact rotate_inverse. Qed.
Print Assumptions C09_rotate_inverse.

Theorem C09_rotate_n_neg : forall (w : Z) (a : list Z),
  znx_rotate w (Z.of_nat (length a)) a = map (wneg w) a.
Proof. exact rotate_n_neg. Qed.
Print Assumptions C09_rotate_n_neg.

Theorem C09_rotate_2n_id : forall (w : Z) (a : list Z),
  znx_rotate w (2 * Z.of_nat (length a)) a = a.
Proof. exact rotate_2n_id. Qed.
Print Assumptions C09_rotate_2n_id.

Theorem C09_rotate_mod_2n : forall (w p : Z) (a : list Z),
  znx_rotate w (p mod (2 * Z.of_nat (length a))) a = znx_rotate w p a.
Proof. exact rotate_mod_2n. Qed.
Print Assumptions C09_rotate_mod_2n.

Example C09_ex_rotate_inverse :
  znx_rotate 64 (- 1000003) (znx_rotate 64 1000003 [1; -2; 3; - 2 ^ 63; 5; 6]) = [1; -2; 3; - 2 ^ 63; 5; 6].
Proof. apply (C09_rotate_inverse 64 1000003); [lia | apply Forall_in_rangeb; vm_compute; reflexivity]. Qed.

(* the range hypothesis is needed: a word outside the w-bit range is not recovered (it is wrapped) *)
Example C09_ex_rotate_inverse_needs_range :
  znx_rotate 64 (-1) (znx_rotate 64 1 [0; 2 ^ 63]) <> [0; 2 ^ 63].
Proof. vm_compute. discriminate. Qed.

(* ---------- 3. the automorphism loop is sigma_g; every position written exactly once ---------- *)
Theorem C09_automorphism_is_sigma : forall (w g m : Z) (r0 a : list Z),
  0 <= m -> Z.of_nat (length a) = 2 ^ m -> Z.odd g = true -> length r0 = length a ->
  znx_automorphism_onto w g r0 a = sigma w g a.
Proof. exact automorphism_is_sigma. Qed.
Print Assumptions C09_automorphism_is_sigma.

(* more generally for any n >= 0 and g coprime to n *)
Theorem C09_automorphism_is_sigma_gcd : forall (w g : Z) (a r0 : list Z),
  Z.gcd g (Z.of_nat (length a)) = 1 -> length r0 = length a ->
  znx_automorphism_onto w g r0 a = sigma w g a.
Proof. exact automorphism_is_sigma_gcd. Qed.
Print Assumptions C09_automorphism_is_sigma_gcd.

Theorem C09_sigma_characterisation : forall (w g m : Z) (a : list Z) (j : nat),
  1 <= w -> 0 <= m -> Z.of_nat (length a) = 2 ^ m -> Z.odd g = true ->
  Forall (in_range w) a -> (j < length a)%nat ->
  ext w (sigma w g a) (Z.of_nat j * g) = nthZ a j.
Proof. exact sigma_characterisation. Qed.
Print Assumptions C09_sigma_characterisation.

(* sigma_g(a)(X^g) = a(X) on every exponent *)
Theorem C09_ext_sigma : forall (w g : Z) (a : list Z) (k : Z),
  1 <= w -> Z.gcd g (2 * Z.of_nat (length a)) = 1 -> Forall (in_range w) a -> (0 < length a)%nat ->
  ext w (sigma w g a) (k * g) = ext w a k.
Proof. exact ext_sigma. Qed.
Print Assumptions C09_ext_sigma.

Example C09_ex_automorphism :
  znx_automorphism_onto 64 (-3) [91; 92; 93; 94; 95; 96; 97; 98] [1; 2; 3; 4; 5; 6; 7; - 2 ^ 63]
  = sigma 64 (-3) [1; 2; 3; 4; 5; 6; 7; - 2 ^ 63].
Proof. apply (C09_automorphism_is_sigma 64 (-3) 3); reflexivity || lia. Qed.

(* for even g the loop does not write every position: prior content shows through *)
Example C09_ex_automorphism_even_depends_on_r0 :
  znx_automorphism_onto 64 2 [91; 92; 93; 94] [1; 2; 3; 4] <> znx_automorphism_onto 64 2 [0; 0; 0; 0] [1; 2; 3; 4].
Proof. vm_compute. discriminate. Qed.

(* ---------- 4. the Galois group acts ---------- *)
Theorem C09_sigma_compose : forall (w g h m : Z) (a : list Z),
  1 <= w -> 0 <= m -> Z.of_nat (length a) = 2 ^ m -> Z.odd g = true -> Z.odd h = true ->
  Forall (in_range w) a ->
  sigma w g (sigma w h a) = sigma w (g * h) a.
Proof. exact sigma_compose. Qed.
Print Assumptions C09_sigma_compose.

Theorem C09_sigma_compose_gcd : forall (w g h : Z) (a : list Z),
  1 <= w -> Z.gcd g (2 * Z.of_nat (length a)) = 1 -> Z.gcd h (2 * Z.of_nat (length a)) = 1 ->
  Forall (in_range w) a ->
  sigma w g (sigma w h a) = sigma w (g * h) a.
Proof. exact sigma_compose_gcd. Qed.
Print Assumptions C09_sigma_compose_gcd.

Theorem C09_sigma_1 : forall (w : Z) (a : list Z), sigma w 1 a = a.
Proof. exact sigma_1. Qed.
Print Assumptions C09_sigma_1.

Theorem C09_sigma_mod : forall (w g : Z) (a : list Z),
  sigma w (g mod (2 * Z.of_nat (length a))) a = sigma w g a.
Proof. exact sigma_mod. Qed.
Print Assumptions C09_sigma_mod.

Theorem C09_sigma_inverse : forall (w g h m : Z) (a : list Z),
  1 <= w -> 0 <= m -> Z.of_nat (length a) = 2 ^ m -> Z.odd g = true ->
  (g * h) mod (2 * 2 ^ m) = 1 -> Forall (in_range w) a ->
  sigma w h (sigma w g a) = a.
Proof. exact sigma_inverse. Qed.
Print Assumptions C09_sigma_inverse.

Theorem C09_automorphism_compose : forall (w g h m : Z) (r0 r1 r2 a : list Z),
  1 <= w -> 0 <= m -> Z.of_nat (length a) = 2 ^ m -> Z.odd g = true -> Z.odd h = true ->
  Forall (in_range w) a -> length r0 = length a -> length r1 = length a -> length r2 = length a ->
  znx_automorphism_onto w g r1 (znx_automorphism_onto w h r0 a) = znx_automorphism_onto w (g * h) r2 a.
Proof. exact automorphism_compose. Qed.
Print Assumptions C09_automorphism_compose.

Example C09_ex_sigma_compose :
  sigma 64 (-5) (sigma 64 27 [1; 2; 3; 4; 5; 6; 7; - 2 ^ 63]) = sigma 64 (-135) [1; 2; 3; 4; 5; 6; 7; - 2 ^ 63].
Proof.
  apply (C09_sigma_compose 64 (-5) 27 3); try reflexivity; try lia.
  apply Forall_in_rangeb; vm_compute; reflexivity.
Qed.

(* ---------- 5. Galois-element arithmetic (u64 wrap-around explicit) ---------- *)
Theorem C09_mod_exp_u64_spec : forall x e : Z, 0 <= e < 2 ^ 64 -> mod_exp_u64 x e = x ^ e mod 2 ^ 64.
Proof. exact mod_exp_u64_spec. Qed.
Print Assumptions C09_mod_exp_u64_spec.

Theorem C09_galois_inv_correct : forall g m : Z,
  0 <= m <= 62 -> Z.odd g = true ->
  (g * galois_element_inv g (2 * 2 ^ m)) mod (2 * 2 ^ m) = 1.
Proof. exact galois_inv_correct. Qed.
Print Assumptions C09_galois_inv_correct.

Theorem C09_galois_element_value : forall k c : Z,
  1 <= c <= 63 -> k <> 0 -> Z.abs k < 2 ^ 64 ->
  galois_element k (2 ^ c) = (5 ^ Z.abs k mod 2 ^ c) * Z.sgn k.
Proof. exact galois_element_value. Qed.
Print Assumptions C09_galois_element_value.

Theorem C09_galois_element_odd : forall k c : Z,
  1 <= c <= 63 -> Z.abs k < 2 ^ 64 -> Z.odd (galois_element k (2 ^ c)) = true.
Proof. exact galois_element_odd. Qed.
Print Assumptions C09_galois_element_odd.

(* the signed-generator convention is a sign flip (multiplication by the unit -1), as documented ... *)
Theorem C09_galois_element_neg : forall k c : Z,
  1 <= c <= 63 -> k <> 0 -> Z.abs k < 2 ^ 64 ->
  galois_element (- k) (2 ^ c) = - galois_element k (2 ^ c).
Proof. exact galois_element_neg. Qed.
Print Assumptions C09_galois_element_neg.

(* ... and NOT the inverse in (Z/2N)^*: k = 1, 2N = 16: 5 * (-5) = 7 mod 16 *)
Definition galois_element_neg_is_inverse_full : Prop :=
  forall k c, 1 <= c <= 63 -> Z.abs k < 2 ^ 63 ->
  (galois_element k (2 ^ c) * galois_element (- k) (2 ^ c)) mod 2 ^ c = 1.
Theorem C09_galois_element_neg_is_inverse_refuted :
  exists k co, co = 16 /\ (galois_element k co * galois_element (- k) co) mod co <> 1.
Proof. exact galois_element_neg_is_inverse_refuted. Qed.
Print Assumptions C09_galois_element_neg_is_inverse_refuted.

Theorem C09_sigma_galois_inverse : forall (w g m : Z) (a : list Z),
  1 <= w -> 0 <= m <= 62 -> Z.of_nat (length a) = 2 ^ m -> Z.odd g = true ->
  Forall (in_range w) a ->
  sigma w (galois_element_inv g (2 * 2 ^ m)) (sigma w g a) = a.
Proof. exact sigma_galois_inverse. Qed.
Print Assumptions C09_sigma_galois_inverse.

Theorem C09_automorphism_inverse : forall (w g m : Z) (r0 r1 a : list Z),
  1 <= w -> 0 <= m <= 62 -> Z.of_nat (length a) = 2 ^ m -> Z.odd g = true ->
  Forall (in_range w) a -> length r0 = length a -> length r1 = length a ->
  znx_automorphism_onto w (galois_element_inv g (2 * 2 ^ m)) r1 (znx_automorphism_onto w g r0 a) = a.
Proof. exact automorphism_inverse. Qed.
Print Assumptions C09_automorphism_inverse.

Example C09_ex_galois :
  (galois_element_inv 5 16, galois_element_inv (-5) 16, galois_element 3 16, galois_element (-3) 16,
   (12345 * galois_element_inv 12345 8192) mod 8192, (- (2 ^ 63) + 1) * galois_element_inv (- (2 ^ 63) + 1) (2 ^ 63) mod 2 ^ 63)
  = (13, -13, 13, -13, 1, 1).
Proof. vm_compute. reflexivity. Qed.

Example C09_ex_automorphism_inverse :
  znx_automorphism_onto 64 (galois_element_inv (-3) 16) [7; 7; 7; 7; 7; 7; 7; 7]
    (znx_automorphism_onto 64 (-3) [9; 9; 9; 9; 9; 9; 9; 9] [1; 2; 3; 4; 5; 6; 7; - 2 ^ 63])
  = [1; 2; 3; 4; 5; 6; 7; - 2 ^ 63].
Proof.
  apply (C09_automorphism_inverse 64 (-3) 3); try reflexivity; try lia.
  apply Forall_in_rangeb; vm_compute; reflexivity.
Qed.

(* ---------- 6. ring-degree switching ---------- *)
Theorem C09_switch_ring_same : forall (n_out : nat) (r0 a : list Z),
  length a = n_out -> znx_switch_ring n_out r0 a = a.
Proof. exact switch_ring_same. Qed.
Print Assumptions C09_switch_ring_same.

Theorem C09_switch_ring_subsample : forall (n_out : nat) (r0 a : list Z),
  (n_out < length a)%nat -> znx_switch_ring n_out r0 a = subsample n_out a.
Proof. exact switch_ring_subsample. Qed.
Print Assumptions C09_switch_ring_subsample.

Theorem C09_switch_ring_embed : forall (n_out : nat) (r0 a : list Z),
  (length a < n_out)%nat -> znx_switch_ring n_out r0 a = embed n_out a.
Proof. exact switch_ring_embed. Qed.
Print Assumptions C09_switch_ring_embed.

Theorem C09_switch_ring_indep : forall (n_out : nat) (r0 r1 a : list Z),
  znx_switch_ring n_out r0 a = znx_switch_ring n_out r1 a.
Proof. exact switch_ring_indep. Qed.
Print Assumptions C09_switch_ring_indep.

Theorem C09_subsample_embed : forall (c : nat) (a : list Z),
  (0 < c)%nat -> (0 < length a)%nat -> subsample (length a) (embed (c * length a) a) = a.
Proof. exact subsample_embed. Qed.
Print Assumptions C09_subsample_embed.

Theorem C09_subsample_embed_divide : forall (n : nat) (a : list Z),
  (0 < n)%nat -> (0 < length a)%nat -> Nat.divide (length a) n ->
  subsample (length a) (embed n a) = a.
Proof. exact subsample_embed_divide. Qed.
Print Assumptions C09_subsample_embed_divide.

Theorem C09_switch_ring_roundtrip : forall (c : nat) (r0 r1 a : list Z),
  (0 < c)%nat -> (0 < length a)%nat ->
  znx_switch_ring (length a) r1 (znx_switch_ring (c * length a) r0 a) = a.
Proof. exact switch_ring_roundtrip. Qed.
Print Assumptions C09_switch_ring_roundtrip.

(* embed is the ring map X -> X^c *)
Theorem C09_ext_embed : forall (w : Z) (c : nat) (a : list Z) (k : Z),
  (0 < c)%nat -> (0 < length a)%nat ->
  ext w (embed (c * length a) a) (k * Z.of_nat c) = ext w a k.
Proof. exact ext_embed. Qed.
Print Assumptions C09_ext_embed.

Example C09_ex_switch :
  (znx_switch_ring 6 [9; 9; 9; 9; 9; 9] [1; -2; 3], znx_switch_ring 2 [9; 9] [1; -2; 3; 4; 5; 6])
  = ([1; 0; -2; 0; 3; 0], [1; 4]).
Proof. vm_compute. reflexivity. Qed.

(* ---------- 7. split / merge ---------- *)
Theorem C09_merge_is_interleave : forall (n : nat) (parts : list limbs) (r0 : limbs),
  vec_merge_rings n parts r0
  = build (length r0) (fun j => interleave n (map (fun p => lnth p j) parts)).
Proof. exact merge_is_interleave. Qed.
Print Assumptions C09_merge_is_interleave.

Theorem C09_split_part_spec : forall (w : Z) (gap n_s i : nat) (a r0 : limbs),
  (0 < n_s)%nat -> (i < gap)%nat ->
  (forall j, (j < length a)%nat -> length (lnth a j) = (gap * n_s)%nat) ->
  vec_split_part w n_s i a r0
  = build (length r0) (fun j => if Nat.ltb j (length a)
       then subsample n_s (monomial_mul w (- Z.of_nat i) (lnth a j)) else zlimb n_s).
Proof. exact split_part_spec. Qed.
Print Assumptions C09_split_part_spec.

Theorem C09_split_merge_roundtrip : forall (w : Z) (gap n_s : nat) (a : limbs) (rs : list limbs) (r0 : limbs),
  (0 < gap)%nat -> (0 < n_s)%nat ->
  (forall j, (j < length a)%nat -> length (lnth a j) = (gap * n_s)%nat) ->
  (forall i, (i < gap)%nat -> (length a <= length (nth i rs []))%nat) ->
  length r0 = length a ->
  vec_merge_rings (gap * n_s)
     (map (fun i => vec_split_part w n_s i a (nth i rs [])) (seq 0 gap)) r0 = a.
Proof. exact split_merge_roundtrip. Qed.
Print Assumptions C09_split_merge_roundtrip.

Theorem C09_split_merge_general : forall (w : Z) (gap n_s : nat) (a : limbs) (rs : list limbs) (r0 : limbs),
  (0 < gap)%nat -> (0 < n_s)%nat ->
  (forall j, (j < length a)%nat -> length (lnth a j) = (gap * n_s)%nat) ->
  (forall i, (i < gap)%nat -> (length a <= length (nth i rs []))%nat) ->
  vec_merge_rings (gap * n_s)
     (map (fun i => vec_split_part w n_s i a (nth i rs [])) (seq 0 gap)) r0
  = build (length r0) (fun j => if Nat.ltb j (length a) then lnth a j else zlimb (gap * n_s)).
Proof. exact split_merge_general. Qed.
Print Assumptions C09_split_merge_general.

Example C09_ex_split_merge :
  let a := [[1; 2; 3; 4; 5; 6; 7; 8; 9; 10; 11; - 2 ^ 63]; [21; 22; 23; 24; 25; 26; 27; 28; 29; 30; 31; 32]] in
  let junk := [[7; 7; 7; 7]; [7; 7; 7; 7]; [7; 7; 7; 7]] in
  vec_merge_rings 12 (map (fun i => vec_split_part 64 4 i a junk) (seq 0 3)) [[]; []] = a
  /\ vec_split_part 64 4 1 a junk = [[2; 5; 8; 11]; [22; 25; 28; 31]; [0; 0; 0; 0]].
Proof. vm_compute. split; reflexivity. Qed.

(* ---------- 8. the size rule ---------- *)
Theorem C09_vec_add_size_rule : forall (w : Z) (n : nat) (a b r0 : limbs),
  1 <= w -> limbs_wf w n a -> limbs_wf w n b ->
  vec_add w n a b r0 = build (length r0) (fun j => vadd w (lz n a j) (lz n b j)).
Proof. exact vec_add_size_rule. Qed.
Print Assumptions C09_vec_add_size_rule.

Theorem C09_vec_sub_size_rule : forall (w : Z) (n : nat) (a b r0 : limbs),
  1 <= w -> limbs_wf w n a -> limbs_wf w n b ->
  vec_sub w n a b r0 = build (length r0) (fun j => vsub w (lz n a j) (lz n b j)).
Proof. exact vec_sub_size_rule. Qed.
Print Assumptions C09_vec_sub_size_rule.

Theorem C09_vec_add_indep : forall (w : Z) (n : nat) (a b r0 r1 : limbs),
  length r0 = length r1 -> vec_add w n a b r0 = vec_add w n a b r1.
Proof. exact vec_add_indep. Qed.
Print Assumptions C09_vec_add_indep.

Theorem C09_vec_sub_indep : forall (w : Z) (n : nat) (a b r0 r1 : limbs),
  length r0 = length r1 -> vec_sub w n a b r0 = vec_sub w n a b r1.
Proof. exact vec_sub_indep. Qed.
Print Assumptions C09_vec_sub_indep.

Theorem C09_vec_unary_size_rule : forall (n : nat) (f : list Z -> list Z) (a r0 : limbs),
  f (zlimb n) = zlimb n ->
  vec_unary n f a r0 = build (length r0) (fun j => f (lz n a j)).
Proof. exact vec_unary_size_rule. Qed.
Print Assumptions C09_vec_unary_size_rule.

Theorem C09_vec_unary_indep : forall (n : nat) (f : list Z -> list Z) (a r0 r1 : limbs),
  length r0 = length r1 -> vec_unary n f a r0 = vec_unary n f a r1.
Proof. exact vec_unary_indep. Qed.
Print Assumptions C09_vec_unary_indep.

Theorem C09_vec_negate_size_rule : forall (w : Z) (n : nat) (a r0 : limbs),
  1 <= w -> vec_unary n (vneg w) a r0 = build (length r0) (fun j => vneg w (lz n a j)).
Proof. exact vec_negate_size_rule. Qed.
Print Assumptions C09_vec_negate_size_rule.

Theorem C09_vec_rotate_size_rule : forall (w : Z) (n : nat) (p : Z) (a r0 : limbs),
  1 <= w -> vec_rotate w n p a r0 = build (length r0) (fun j => monomial_mul w p (lz n a j)).
Proof. exact vec_rotate_size_rule. Qed.
Print Assumptions C09_vec_rotate_size_rule.

Theorem C09_vec_mul_xp_minus_one_size_rule : forall (w : Z) (n : nat) (p : Z) (a r0 : limbs),
  1 <= w ->
  vec_mul_xp_minus_one w n p a r0
  = build (length r0) (fun j => vsub w (monomial_mul w p (lz n a j)) (lz n a j)).
Proof. exact vec_mul_xp_minus_one_size_rule. Qed.
Print Assumptions C09_vec_mul_xp_minus_one_size_rule.

Theorem C09_vec_rotate_assign_spec : forall (w p : Z) (r0 : limbs),
  vec_rotate_assign w p r0 = map (monomial_mul w p) r0.
Proof. exact vec_rotate_assign_spec. Qed.
Print Assumptions C09_vec_rotate_assign_spec.

Theorem C09_vec_mul_xp_minus_one_assign_spec : forall (w p : Z) (r0 : limbs),
  vec_mul_xp_minus_one_assign w p r0 = map (fun l => vsub w (monomial_mul w p l) l) r0.
Proof. exact vec_mul_xp_minus_one_assign_spec. Qed.
Print Assumptions C09_vec_mul_xp_minus_one_assign_spec.

Theorem C09_vec_automorphism_size_rule : forall (w : Z) (n : nat) (m g : Z) (a r0 : limbs),
  1 <= w -> 0 <= m -> Z.of_nat n = 2 ^ m -> Z.odd g = true -> limbs_len n a -> limbs_len n r0 ->
  vec_automorphism w n g a r0 = build (length r0) (fun j => sigma w g (lz n a j)).
Proof. exact vec_automorphism_size_rule. Qed.
Print Assumptions C09_vec_automorphism_size_rule.

Theorem C09_vec_automorphism_indep : forall (w : Z) (n : nat) (m g : Z) (a r0 r1 : limbs),
  1 <= w -> 0 <= m -> Z.of_nat n = 2 ^ m -> Z.odd g = true ->
  limbs_len n a -> limbs_len n r0 -> limbs_len n r1 -> length r0 = length r1 ->
  vec_automorphism w n g a r0 = vec_automorphism w n g a r1.
Proof. exact vec_automorphism_indep. Qed.
Print Assumptions C09_vec_automorphism_indep.

Theorem C09_vec_automorphism_assign_spec : forall (w : Z) (n : nat) (m g : Z) (t0 : list Z) (r0 : limbs),
  0 <= m -> Z.of_nat n = 2 ^ m -> Z.odd g = true -> length t0 = n -> limbs_len n r0 ->
  vec_automorphism_assign w g t0 r0 = map (sigma w g) r0.
Proof. exact vec_automorphism_assign_spec. Qed.
Print Assumptions C09_vec_automorphism_assign_spec.

Theorem C09_vec_switch_ring_size_rule : forall (n_in n_out : nat) (a r0 : limbs),
  (0 < n_in)%nat -> limbs_len n_in a ->
  vec_switch_ring n_out a r0 = build (length r0) (fun j => switch_spec n_in n_out (lz n_in a j)).
Proof. exact vec_switch_ring_size_rule. Qed.
Print Assumptions C09_vec_switch_ring_size_rule.

Theorem C09_vec_switch_ring_indep : forall (n_out : nat) (a r0 r1 : limbs),
  length r0 = length r1 -> vec_switch_ring n_out a r0 = vec_switch_ring n_out a r1.
Proof. exact vec_switch_ring_indep. Qed.
Print Assumptions C09_vec_switch_ring_indep.

Example C09_ex_vec_add :
  vec_add 64 2 [[1; 2]; [3; 4]; [2 ^ 63 - 1; - 2 ^ 63]] [[10; 20]] [[7; 7]; [7; 7]; [7; 7]; [7; 7]]
  = [[11; 22]; [3; 4]; [2 ^ 63 - 1; - 2 ^ 63]; [0; 0]].
Proof.
  rewrite C09_vec_add_size_rule; [vm_compute; reflexivity | lia | |];
    apply limbs_wfb_sound; vm_compute; reflexivity.
Qed.

Example C09_ex_vec_sub_wraps :
  vec_sub 64 2 [[1; 2]] [[10; 20]; [5; - 2 ^ 63]] [[]; []; []] = [[-9; -18]; [-5; - 2 ^ 63]; [0; 0]].
Proof.
  rewrite C09_vec_sub_size_rule; [vm_compute; reflexivity | lia | |];
    apply limbs_wfb_sound; vm_compute; reflexivity.
Qed.

Example C09_ex_vec_automorphism :
  vec_automorphism 64 4 (-3) [[1; 2; 3; 4]] [[9; 9; 9; 9]; [8; 8; 8; 8]]
  = [sigma 64 (-3) [1; 2; 3; 4]; [0; 0; 0; 0]].
Proof.
  rewrite (C09_vec_automorphism_size_rule 64 4 2 (-3)); try reflexivity; try lia;
    apply limbs_lenb_sound; vm_compute; reflexivity.
Qed.

Example C09_ex_vec_automorphism_assign :
  vec_automorphism_assign 64 5 [9; 9; 9; 9] [[1; 2; 3; 4]; [5; 6; 7; - 2 ^ 63]]
  = [sigma 64 5 [1; 2; 3; 4]; sigma 64 5 [5; 6; 7; - 2 ^ 63]].
Proof.
  rewrite (C09_vec_automorphism_assign_spec 64 4 2 5); try reflexivity; try lia.
  apply limbs_lenb_sound; vm_compute; reflexivity.
Qed.
