(* C09 — coefficient-domain ring operations match Z[X]/(X^N+1) exactly.
   Pinned statements only. *)
From PV Require Import Base.MachineInt Model.Znx Model.Limbs Model.Ring Model.Poly Proofs.C09Ring.
Open Scope Z_scope.

Theorem C09_rotate_length : forall w p (a : list Z), length (znx_rotate w p a) = length a.
Proof. exact rotate_length. Qed.
Print Assumptions C09_rotate_length.
