(* C05 — ciphertext multiplication (tensor, relinearise, plain, constant) scales right; HAL bivariate convolution.
   Pinned statements, `exact` proofs, Print Assumptions, and Examples showing that hypotheses are satisfiable. *)
From PV Require Import Base.MachineInt Model.Znx Model.Limbs Model.LimbsBig Model.Flat Model.Ring Model.DftAbs
  Model.C05Cnv Model.C05Spec Model.C05Core.
From PV Require Import Proofs.C07Dft Proofs.C07Ring Proofs.C05Cnv Proofs.C05Core Proofs.C05Norm Proofs.C05NormNtt Proofs.C05Trunc.
From PV Require Model.Gadget Model.GadgetSpec Model.C05Relin Proofs.GadgetNorm Proofs.C03Phase Proofs.C05Relin Proofs.C05RelinPhase.
Open Scope Z_scope.

(* ====================================================================================================== *)
(* Part 1 — HAL convolution over exact products                                                            *)
(* ====================================================================================================== *)

(* what cnv_prepare_left / right / self do: the mask lands on the last ACTIVE limb min(psz, a.size) - 1 *)
Theorem C05_cnv_prepare_spec : forall n psz mask a j, (j < psz)%nat ->
  lim (cnv_prepare n psz mask a) j =
  let min_size := Nat.min psz (length a) in
  if Nat.ltb (S j) min_size then lim a j
  else if Nat.ltb j min_size then mask_limb mask (lim a j) else pzero n.
Proof. exact cnv_prepare_spec. Qed.
Print Assumptions C05_cnv_prepare_spec.

(* msb_mask_bottom_limb(base2k, k): keeps the top k mod base2k bits of the limb (floor to a multiple of 2^(base2k - k mod base2k)) *)
Theorem C05_msb_mask_spec : forall b k x, 1 <= b <= 63 -> 0 <= k ->
  Z.land x (msb_mask b k) = if k mod b =? 0 then x else x - x mod 2 ^ (b - k mod b).
Proof. exact msb_mask_spec. Qed.
Print Assumptions C05_msb_mask_spec.
Example C05_msb_mask_ex : msb_mask 12 29 = - 2 ^ 7 /\ Z.land (-1000) (msb_mask 12 29) = -1024 /\ msb_mask 12 24 = -1.
Proof. repeat split; reflexivity. Qed.

(* cnv_apply_dft(cnv_offset) for all sizes, all offsets (also past the end), both backend families, any masks:
   output limb k is the coefficient of Y^(k + cnv_offset) of (sum_i a_i Y^i)(sum_j b_j Y^j), an explicit sum over index pairs,
   truncated to res_size limbs *)
Theorem C05_cnv_is_truncated_bivariate_product :
  forall (fft : bool) (n rsz cnv_offset pasz pbsz : nat) (mask_a mask_b : Z) (a b : plimbs) (k : nat),
  wfl n a -> wfl n b -> (1 <= pasz)%nat -> (1 <= pbsz)%nat -> (k < rsz)%nat ->
  let A := cnv_prepare n pasz mask_a a in let B := cnv_prepare n pbsz mask_b b in
  lim (cnv_apply fft n rsz cnv_offset A B) k =
  psumf n (fun i => psumf n (fun j =>
     if Nat.eqb (i + j) (k + cnv_offset) then pmul (lim A i) (lim B j) else pzero n) pbsz) pasz.
Proof. exact cnv_is_truncated_bivariate_product. Qed.
Print Assumptions C05_cnv_is_truncated_bivariate_product.

(* the same for arbitrary (already prepared) operands *)
Theorem C05_cnv_apply_spec : forall fft n rsz off a b k, wfl n a -> wfl n b -> (1 <= length a)%nat -> (1 <= length b)%nat ->
  (k < rsz)%nat -> lim (cnv_apply fft n rsz off a b) k = bivariate_coeff n a b (k + off).
Proof. exact cnv_apply_spec. Qed.
Print Assumptions C05_cnv_apply_spec.
Example C05_cnv_apply_ex :
  wfl 2 [[1; 2]; [3; 4]] /\ wfl 2 [[5; 6]] /\
  cnv_apply true 2 3 1 [[1; 2]; [3; 4]] [[5; 6]] = [[-9; 38]; [0; 0]; [0; 0]] /\
  cnv_apply false 2 3 0 [[1; 2]; [3; 4]] [[5; 6]] = [[-7; 16]; [-9; 38]; [0; 0]] /\
  bivariate_coeff 2 [[1; 2]; [3; 4]] [[5; 6]] 1 = [-9; 38].
Proof.
  repeat split; try reflexivity; intros [|[|j]] H; cbn in *; try reflexivity; lia.
Qed.

Theorem C05_cnv_offset_past_end : forall fft n rsz off a b k, wfl n a -> wfl n b -> (1 <= length a)%nat -> (1 <= length b)%nat ->
  (k < rsz)%nat -> (length a + length b - 1 <= k + off)%nat -> lim (cnv_apply fft n rsz off a b) k = pzero n.
Proof. exact cnv_apply_past_end. Qed.
Print Assumptions C05_cnv_offset_past_end.

(* FFT64 (min_size = min(res, a+b-1)) and NTT120 (min_size = min(res, a+b-offset)) compute the same limbs *)
Theorem C05_cnv_family_independent : forall n rsz off a b, wfl n a -> wfl n b -> (1 <= length a)%nat -> (1 <= length b)%nat ->
  cnv_apply true n rsz off a b = cnv_apply false n rsz off a b.
Proof. exact cnv_apply_family_independent. Qed.
Print Assumptions C05_cnv_family_independent.

(* the executable oracle's sum (skipping the pairs that cannot contribute) is the full sum *)
Theorem C05_bivariate_fast_eq : forall n a b K, wfl n a -> wfl n b -> bivariate_coeff_fast n a b K = bivariate_coeff n a b K.
Proof. exact bivariate_fast_eq. Qed.
Print Assumptions C05_bivariate_fast_eq.

(* cnv_pairwise_apply_dft(i, j) and the trick (a_i + a_j)(b_i + b_j) - a_i b_i - a_j b_j = a_i b_j + a_j b_i, limb by limb *)
Theorem C05_cnv_pairwise_spec : forall fft n rsz off ai aj bi bj same k,
  wfl n ai -> wfl n aj -> wfl n bi -> wfl n bj -> length aj = length ai -> length bj = length bi ->
  (1 <= length ai)%nat -> (1 <= length bi)%nat -> (k < rsz)%nat ->
  lim (cnv_pairwise fft n rsz off ai aj bi bj same) k =
  if same then bivariate_coeff n ai bi (k + off)
  else bivariate_coeff n (plimbs_add ai aj) (plimbs_add bi bj) (k + off).
Proof. exact cnv_pairwise_spec. Qed.
Print Assumptions C05_cnv_pairwise_spec.

Theorem C05_pairwise_identity : forall fft n rsz off ai aj bi bj k,
  wfl n ai -> wfl n aj -> wfl n bi -> wfl n bj -> length aj = length ai -> length bj = length bi ->
  (1 <= length ai)%nat -> (1 <= length bi)%nat -> (k < rsz)%nat ->
  psub (psub (lim (cnv_pairwise fft n rsz off ai aj bi bj false) k) (lim (cnv_apply fft n rsz off ai bi) k))
       (lim (cnv_apply fft n rsz off aj bj) k)
  = padd (lim (cnv_apply fft n rsz off ai bj) k) (lim (cnv_apply fft n rsz off aj bi) k).
Proof. exact pairwise_identity_cnv. Qed.
Print Assumptions C05_pairwise_identity.
Example C05_pairwise_identity_ex :
  let ai := [[1; 2]] in let aj := [[3; -1]] in let bi := [[2; 0]] in let bj := [[-1; 4]] in
  psub (psub (lim (cnv_pairwise true 2 2 0 ai aj bi bj false) 0) (lim (cnv_apply true 2 2 0 ai bi) 0)) (lim (cnv_apply true 2 2 0 aj bj) 0)
  = [-3; 0].
Proof. reflexivity. Qed.

(* cnv_by_const_apply: limb k = sum_{u+v = k + off} b_v . a_u in the accumulator's width; a * (constant c) = c . a *)
Theorem C05_cnv_by_const_spec : forall fft n dsz off a b k, wfl n a -> (1 <= length a)%nat -> (1 <= length b)%nat -> (k < dsz)%nat ->
  lim (cnv_by_const fft n dsz off a b) k = map (wrap (if fft then 64 else 128)) (bivariate_coeff n a (map (pconst n) b) (k + off)).
Proof. exact cnv_by_const_spec. Qed.
Print Assumptions C05_cnv_by_const_spec.
Theorem C05_pmul_pconst : forall x c, (1 <= length x)%nat -> pmul x (pconst (length x) c) = pscale c x.
Proof. exact pmul_pconst. Qed.
Print Assumptions C05_pmul_pconst.

(* placement in a destination with several columns (both families since the repair 2ac1856 of the FFT64 kernels):
   column rcol receives the computed limbs, is zero from min_size on, and no other word of the destination changes *)
Theorem C05_cnv_store_is_spec : forall n rcols rsz rcol ms f r0,
  cnv_store n rcols rsz rcol ms f r0 =
  cnv_store_spec n rcols rsz rcol (fun j => if Nat.ltb j ms then f j else pzero n) r0.
Proof. exact cnv_store_is_spec. Qed.
Print Assumptions C05_cnv_store_is_spec.
Example C05_cnv_store_ex : cnv_store 1 2 2 0 2 (fun j => [Z.of_nat j + 5]) [1; 2; 3; 4] = [5; 2; 6; 4].
Proof. reflexivity. Qed.

(* the (cnv_offset_hi, cnv_offset_lo) split, as the Rust computes it, in both branches *)
Theorem C05_cnv_offset_split_correct : forall b cnv, 1 <= b -> 0 <= cnv ->
  let '(hi, lo) := offset_split b cnv in
  hi * b + lo = cnv - b /\ 0 <= hi /\ - b <= lo < b /\
  (cnv < b -> hi = 0 /\ lo = cnv - b) /\ (b <= cnv -> hi = cnv / b - 1 /\ lo = cnv mod b).
Proof. exact offset_split_correct. Qed.
Print Assumptions C05_cnv_offset_split_correct.
Example C05_cnv_offset_split_ex : offset_split 17 5 = (0, -12) /\ offset_split 17 17 = (0, 0) /\ offset_split 17 40 = (1, 6).
Proof. repeat split; reflexivity. Qed.

(* ====================================================================================================== *)
(* Part 2 — core level                                                                                     *)
(* ====================================================================================================== *)

(* torus position: the convolution output read at scale P + lo in radix 2^ab is the window hi <= u+v < hi+dsz of the exact
   product of the two operand values, scaled by 2^(P + cnv_offset): the offset is a number of bits *)
Theorem C05_product_position : forall fft n dsz hi P ab lo cnv a b, wfl n a -> wfl n b -> (1 <= length a)%nat -> (1 <= length b)%nat ->
  zn hi * ab + lo = cnv - ab ->
  pval n (P + lo) ab (cnv_apply fft n dsz hi a b) =
  psumf n (fun u => psumf n (fun v =>
     if Nat.leb hi (u + v) && Nat.ltb (u + v) (hi + dsz)
     then pscale (2 ^ (P + cnv - (zn u + zn v + 2) * ab)) (pmul (lim a u) (lim b v)) else pzero n) (length b)) (length a).
Proof. exact product_position. Qed.
Print Assumptions C05_product_position.

(* value of every tensor column (cell (i, j) holds c_i d_j + [i <> j] c_j d_i): Section hypotheses
   nrm_shape, nrm_no_overflow, normalize_value_ok (C08) *)
Theorem C05_tensor_cell_value :
  forall (fft : bool) (n rsz dsz hi cols asz bsz : nat) (P rb ab lo : Z) (nrm : plimbs -> limbs)
         (eps kap : plimbs -> list Z) (dom : plimbs -> Prop) (A B : list plimbs) (sigma : nat * nat -> list Z),
  (forall D, shaped n rsz (nrm D)) ->
  (forall D, wfl n D -> length D = dsz -> dom D -> forall u c, Z.abs (nth c (lim (nrm D) u) 0) <= 2 ^ 61) ->
  (forall D, wfl n D -> length D = dsz -> dom D ->
     length (eps D) = n /\ length (kap D) = n /\
     Vr n P rb (nrm D) = padd (padd (Vd n P ab lo D) (eps D)) (pscale (2 ^ P) (kap D)) /\
     (forall c, Z.abs (nth c (eps D) 0) <= Uu rsz P rb)) ->
  (forall i, (i < cols)%nat -> wfl n (colsel A i) /\ length (colsel A i) = asz) ->
  (forall i, (i < cols)%nat -> wfl n (colsel B i) /\ length (colsel B i) = bsz) ->
  (1 <= asz)%nat -> (1 <= bsz)%nat ->
  (forall i, (i < cols)%nat -> dom (Cn fft n dsz hi A B i i)) ->
  (forall i j, (i < cols)%nat -> (j < cols)%nat -> i <> j -> dom (Pw fft n dsz hi A B i j)) ->
  (forall ij, length (sigma ij) = n) ->
  forall (i j : nat) (r0 : list (list Z)), (i < cols)%nat -> (j < cols)%nat -> length r0 = rsz ->
  Vr n P rb (cell_apply fft n nrm dsz hi A B i j r0) =
  padd (padd (Gm fft n dsz hi P ab lo A B (i, j)) (Em fft n dsz hi eps A B (i, j))) (pscale (2 ^ P) (Km fft n dsz hi kap A B (i, j))).
Proof. exact cell_value. Qed.
Print Assumptions C05_tensor_cell_value.

(* decrypting the model's tensor with keys sigma(i, j) (= s_i s_j, s_0 = 1, for the real tensor secret): the phase of the
   tensor product of the two ciphertext vectors over exact products at scale P + lo (see C05_product_position for the
   position), plus the normalisation error (C05_tensor_error_bound), plus a multiple of 2^P (i.e. equal on the torus) *)
Theorem C05_tensor_phase :
  forall (fft : bool) (n rsz dsz hi cols asz bsz : nat) (P rb ab lo : Z) (nrm : plimbs -> limbs)
         (eps kap : plimbs -> list Z) (dom : plimbs -> Prop) (A B : list plimbs) (sigma : nat * nat -> list Z),
  (forall D, shaped n rsz (nrm D)) ->
  (forall D, wfl n D -> length D = dsz -> dom D -> forall u c, Z.abs (nth c (lim (nrm D) u) 0) <= 2 ^ 61) ->
  (forall D, wfl n D -> length D = dsz -> dom D ->
     length (eps D) = n /\ length (kap D) = n /\
     Vr n P rb (nrm D) = padd (padd (Vd n P ab lo D) (eps D)) (pscale (2 ^ P) (kap D)) /\
     (forall c, Z.abs (nth c (eps D) 0) <= Uu rsz P rb)) ->
  (forall i, (i < cols)%nat -> wfl n (colsel A i) /\ length (colsel A i) = asz) ->
  (forall i, (i < cols)%nat -> wfl n (colsel B i) /\ length (colsel B i) = bsz) ->
  (1 <= asz)%nat -> (1 <= bsz)%nat ->
  (forall i, (i < cols)%nat -> dom (Cn fft n dsz hi A B i i)) ->
  (forall i j, (i < cols)%nat -> (j < cols)%nat -> i <> j -> dom (Pw fft n dsz hi A B i j)) ->
  (forall ij, length (sigma ij) = n) ->
  forall res0 : list (list (list Z)), length res0 = length (tpairs cols) -> (forall r, In r res0 -> length r = rsz) ->
  phase n P rb (tensor_gen (cell_apply fft n nrm dsz hi A B) cols res0) (map sigma (tpairs cols)) =
  padd (padd (plsum n (map (fun ij => pmul (Gm fft n dsz hi P ab lo A B ij) (sigma ij)) (tpairs cols)))
             (plsum n (map (fun ij => pmul (Em fft n dsz hi eps A B ij) (sigma ij)) (tpairs cols))))
       (pscale (2 ^ P) (plsum n (map (fun ij => pmul (Km fft n dsz hi kap A B ij) (sigma ij)) (tpairs cols)))).
Proof. exact tensor_phase. Qed.
Print Assumptions C05_tensor_phase.

Theorem C05_tensor_error_bound :
  forall (fft : bool) (n rsz dsz hi cols asz bsz : nat) (P rb ab lo : Z) (nrm : plimbs -> limbs)
         (eps kap : plimbs -> list Z) (dom : plimbs -> Prop) (A B : list plimbs) (sigma : nat * nat -> list Z),
  (forall D, wfl n D -> length D = dsz -> dom D ->
     length (eps D) = n /\ length (kap D) = n /\
     Vr n P rb (nrm D) = padd (padd (Vd n P ab lo D) (eps D)) (pscale (2 ^ P) (kap D)) /\
     (forall c, Z.abs (nth c (eps D) 0) <= Uu rsz P rb)) ->
  (forall i, (i < cols)%nat -> wfl n (colsel A i) /\ length (colsel A i) = asz) ->
  (forall i, (i < cols)%nat -> wfl n (colsel B i) /\ length (colsel B i) = bsz) ->
  (1 <= asz)%nat -> (1 <= bsz)%nat ->
  (forall i, (i < cols)%nat -> dom (Cn fft n dsz hi A B i i)) ->
  (forall i j, (i < cols)%nat -> (j < cols)%nat -> i <> j -> dom (Pw fft n dsz hi A B i j)) ->
  (forall ij, length (sigma ij) = n) ->
  forall (ij : nat * nat) (c : nat), (fst ij < cols)%nat -> (snd ij < cols)%nat ->
  Z.abs (nth c (Em fft n dsz hi eps A B ij) 0) <= (if Nat.eqb (fst ij) (snd ij) then 1 else 3) * Uu rsz P rb.
Proof. exact Em_bound. Qed.
Print Assumptions C05_tensor_error_bound.

(* the hypotheses are satisfiable: the normaliser of already-normalised accumulators (equal radices, no shift), rank 1, n = 2 *)
Example C05_tensor_phase_ex :
  let nrm := reshape 2 2 in let zero := fun _ : plimbs => pzero 2 in
  forall res0 : list (list (list Z)), length res0 = 3%nat -> (forall r, In r res0 -> length r = 2%nat) ->
  phase 2 40 8 (tensor_gen (cell_apply true 2 nrm 2 0 exA exB) 2 res0) (map exsig (tpairs 2)) =
  padd (padd (plsum 2 (map (fun ij => pmul (Gm true 2 2 0 40 8 0 exA exB ij) (exsig ij)) (tpairs 2)))
             (plsum 2 (map (fun ij => pmul (Em true 2 2 0 zero exA exB ij) (exsig ij)) (tpairs 2))))
       (pscale (2 ^ 40) (plsum 2 (map (fun ij => pmul (Km true 2 2 0 zero exA exB ij) (exsig ij)) (tpairs 2)))).
Proof.
  intros nrm zero res0 HL Hr.
  apply (C05_tensor_phase true 2 2 2 0 2 1 1 40 8 8 0 nrm zero zero (small_dom 2 2) exA exB exsig).
  - intros D. apply reshape_shape.
  - intros D _ _ _ u c. apply reshape_no_overflow.
  - intros D w L d. apply (reshape_value_ok 2 2 40 8 D w L d).
  - intros [|[|i]] Hi; try lia; (split; [intros [|j] Hj; cbn in *; [reflexivity|lia]|reflexivity]).
  - intros [|[|i]] Hi; try lia; (split; [intros [|j] Hj; cbn in *; [reflexivity|lia]|reflexivity]).
  - lia.
  - lia.
  - intros [|[|i]] Hi; try lia; apply small_dom_concrete; vm_compute; split; reflexivity.
  - intros [|[|i]] [|[|j]] Hi Hj Hij; try lia; apply small_dom_concrete; vm_compute; split; reflexivity.
  - intros ij. reflexivity.
  - exact HL.
  - exact Hr.
Qed.

(* squaring gives bit for bit what multiplying the ciphertext by itself gives (for any shape-preserving per-column normaliser) *)
Theorem C05_square_eq_self_mul : forall (fft : bool) (n rsz : nat) (nrm : plimbs -> limbs),
  (forall D, shaped n rsz (nrm D)) ->
  forall (dsz hi : nat) (A B : list plimbs) (cols : nat) (res0 : list (list (list Z))),
  (forall r, In r res0 -> length r = rsz) ->
  tensor_gen (cell_square fft n nrm dsz hi A B) cols res0 = tensor_gen (cell_apply fft n nrm dsz hi A B) cols res0.
Proof. exact tensor_square_eq_apply. Qed.
Print Assumptions C05_square_eq_self_mul.

(* ... and for the model's entry points (equal radices: the concrete normaliser is total without any fuel argument) *)
Theorem C05_square_eq_self_mul_model : forall fft n cnv rank b a_k a res0,
  (forall r, In r res0 -> length r = length (colsel res0 0)) ->
  glwe_tensor fft n 2 cnv rank b b a_k a_k a a res0 = glwe_tensor fft n 0 cnv rank b b a_k a_k a a res0.
Proof. exact glwe_tensor_square_eq_self_mul. Qed.
Print Assumptions C05_square_eq_self_mul_model.

(* the accumulate variant adds exactly the product: limb-wise vec_znx_add_assign of what glwe_tensor_apply produces *)
Theorem C05_tensor_add_assign_adds : forall (fft : bool) (n rsz : nat) (nrm : plimbs -> limbs),
  (forall D, shaped n rsz (nrm D)) ->
  forall (dsz hi : nat) (A B : list plimbs) (cols : nat) (res0 : list limbs),
  (forall r, In r res0 -> shaped n rsz r) ->
  tensor_gen (cell_add_assign fft n nrm dsz hi A B) cols res0 =
  map2 (fun r t => vec_add_assign W t r) res0 (tensor_gen (cell_apply fft n nrm dsz hi A B) cols res0).
Proof. exact tensor_add_assign_adds. Qed.
Print Assumptions C05_tensor_add_assign_adds.

Theorem C05_tensor_add_assign_adds_model : forall fft n cnv rank b a_k b_k a b' res0,
  (forall r, In r res0 -> shaped n (length (colsel res0 0)) r) ->
  glwe_tensor fft n 1 cnv rank b b a_k b_k a b' res0 =
  match glwe_tensor fft n 0 cnv rank b b a_k b_k a b' res0 with
  | Some t => Some (map2 (fun r x => vec_add_assign W x r) res0 t)
  | None => None
  end.
Proof. exact glwe_tensor_add_assign_adds. Qed.
Print Assumptions C05_tensor_add_assign_adds_model.
Example C05_tensor_add_assign_ex :
  let a := [[[1; -2]]; [[3; 1]]] in let b := [[[2; 1]]; [[-1; 1]]] in
  let r0 := [[[5; 5]]; [[6; 6]]; [[7; 7]]] in
  glwe_tensor true 2 0 8 1 8 8 8 8 a b r0 = Some [[[4; -3]]; [[6; 8]]; [[-4; 2]]] /\
  glwe_tensor true 2 1 8 1 8 8 8 8 a b r0 = Some [[[9; 2]]; [[12; 14]]; [[3; 9]]] /\
  glwe_tensor true 2 2 8 1 8 8 8 8 a a r0 = glwe_tensor true 2 0 8 1 8 8 8 8 a a r0.
Proof. repeat split; reflexivity. Qed.

(* glwe_mul_plain / glwe_mul_const: every result column is the normalised accumulator Cf(column);
   phase under any key = sum_c val(Cf(col_c)) key_c over exact products + one unit per column + multiple of 2^P *)
Theorem C05_column_phase :
  forall (n rsz dsz : nat) (P rb ab lo : Z) (nrm : plimbs -> limbs) (eps kap : plimbs -> list Z) (dom : plimbs -> Prop)
         (Cf : plimbs -> plimbs),
  (forall D, shaped n rsz (nrm D)) ->
  (forall D, wfl n D -> length D = dsz -> dom D ->
     length (eps D) = n /\ length (kap D) = n /\
     pval n P rb (nrm D) = padd (padd (pval n (P + lo) ab D) (eps D)) (pscale (2 ^ P) (kap D)) /\
     (forall c, Z.abs (nth c (eps D) 0) <= 2 ^ (P - zn rsz * rb))) ->
  forall (A : list plimbs) (key : list (list Z)),
  (forall a, In a A -> wfl n (Cf a) /\ length (Cf a) = dsz /\ dom (Cf a)) -> (forall k, In k key -> length k = n) ->
  phase n P rb (map (fun a => nrm (Cf a)) A) key =
  padd (padd (plsum n (map (fun q => pmul (pval n (P + lo) ab (Cf (fst q))) (snd q)) (combine A key)))
             (plsum n (map (fun q => pmul (eps (Cf (fst q))) (snd q)) (combine A key))))
       (pscale (2 ^ P) (plsum n (map (fun q => pmul (kap (Cf (fst q))) (snd q)) (combine A key)))).
Proof. exact column_phase. Qed.
Print Assumptions C05_column_phase.

Theorem C05_mul_plain_phase :
  forall (fft : bool) (n rsz dsz hi : nat) (P rb ab lo : Z) (nrm : plimbs -> limbs) (eps kap : plimbs -> list Z) (dom : plimbs -> Prop)
         (B : plimbs),
  (forall D, shaped n rsz (nrm D)) ->
  (forall D, wfl n D -> length D = dsz -> dom D ->
     length (eps D) = n /\ length (kap D) = n /\
     pval n P rb (nrm D) = padd (padd (pval n (P + lo) ab D) (eps D)) (pscale (2 ^ P) (kap D)) /\
     (forall c, Z.abs (nth c (eps D) 0) <= 2 ^ (P - zn rsz * rb))) ->
  wfl n B -> (1 <= length B)%nat ->
  forall (A : list plimbs) (key : list (list Z)),
  (forall a, In a A -> wfl n a /\ (1 <= length a)%nat /\ dom (cnv_apply fft n dsz hi a B)) -> (forall k, In k key -> length k = n) ->
  let Cf := fun a => cnv_apply fft n dsz hi a B in
  phase n P rb (map (fun a => nrm (Cf a)) A) key =
  padd (padd (plsum n (map (fun q => pmul (pval n (P + lo) ab (Cf (fst q))) (snd q)) (combine A key)))
             (plsum n (map (fun q => pmul (eps (Cf (fst q))) (snd q)) (combine A key))))
       (pscale (2 ^ P) (plsum n (map (fun q => pmul (kap (Cf (fst q))) (snd q)) (combine A key)))).
Proof. exact mul_plain_phase. Qed.
Print Assumptions C05_mul_plain_phase.

Theorem C05_mul_const_phase :
  forall (fft : bool) (n rsz dsz hi : nat) (P rb ab lo : Z) (nrm : plimbs -> limbs) (eps kap : plimbs -> list Z) (dom : plimbs -> Prop)
         (b : list Z),
  (forall D, shaped n rsz (nrm D)) ->
  (forall D, wfl n D -> length D = dsz -> dom D ->
     length (eps D) = n /\ length (kap D) = n /\
     pval n P rb (nrm D) = padd (padd (pval n (P + lo) ab D) (eps D)) (pscale (2 ^ P) (kap D)) /\
     (forall c, Z.abs (nth c (eps D) 0) <= 2 ^ (P - zn rsz * rb))) ->
  (1 <= length b)%nat ->
  forall (A : list plimbs) (key : list (list Z)),
  (forall a, In a A -> wfl n a /\ (1 <= length a)%nat /\ dom (cnv_by_const fft n dsz hi a b)) -> (forall k, In k key -> length k = n) ->
  let Cf := fun a => cnv_by_const fft n dsz hi a b in
  phase n P rb (map (fun a => nrm (Cf a)) A) key =
  padd (padd (plsum n (map (fun q => pmul (pval n (P + lo) ab (Cf (fst q))) (snd q)) (combine A key)))
             (plsum n (map (fun q => pmul (eps (Cf (fst q))) (snd q)) (combine A key))))
       (pscale (2 ^ P) (plsum n (map (fun q => pmul (kap (Cf (fst q))) (snd q)) (combine A key)))).
Proof. exact mul_const_phase. Qed.
Print Assumptions C05_mul_const_phase.

(* the model's glwe_mul_plain is that column loop *)
Theorem C05_mul_plain_columns : forall fft n cnv ab rb a_k b_k a b res0 cols,
  glwe_mul_plain fft n cnv ab rb a_k b_k a b res0 = Some cols -> length res0 = length a ->
  exists hi lo dsz, offset_split ab cnv = (hi, lo) /\ dsz = (length (colsel a 0) + length b - Z.to_nat hi)%nat /\
  cols = map (fun x => big_nrm fft n (length (colsel res0 0)) rb ab lo
                         (cnv_apply fft n dsz (Z.to_nat hi) x (cnv_prepare n (length b) (msb_mask ab b_k) b)))
             (prep_cols n (length (colsel a 0)) (msb_mask ab a_k) a).
Proof. exact glwe_mul_plain_columns. Qed.
Print Assumptions C05_mul_plain_columns.

(* the concrete per-column normaliser keeps the shape when the radices are equal *)
Theorem C05_big_nrm_shape : forall fft n rsz b lo D, shaped n rsz (big_nrm fft n rsz b b lo D).
Proof. exact big_nrm_shape_same_radix. Qed.
Print Assumptions C05_big_nrm_shape.

(* the triangular sum over the tensor's columns is the full double sum: with G_ii = g_ii, G_ij = g_ij + g_ji and sigma(i,j) = s_i s_j,
   sum_{i <= j} G_ij s_i s_j = sum_{i, j} g_ij s_i s_j   (= (sum_i c_i s_i)(sum_j d_j s_j) when g_ij = c_i d_j) *)
Theorem C05_tensor_resummation : forall (n cols : nat) (g : nat -> nat -> list Z) (s : nat -> list Z),
  (forall i j, length (g i j) = n) -> (forall i, length (s i) = n) ->
  plsum n (map (fun ij => pmul (if Nat.eqb (fst ij) (snd ij) then g (fst ij) (fst ij) else padd (g (fst ij) (snd ij)) (g (snd ij) (fst ij)))
                               (pmul (s (fst ij)) (s (snd ij)))) (tpairs cols))
  = psumf n (fun i => psumf n (fun j => pmul (g i j) (pmul (s i) (s j))) cols) cols.
Proof. exact tensor_resummation. Qed.
Print Assumptions C05_tensor_resummation.
Example C05_tensor_resummation_ex :
  let g := fun i j : nat => [Z.of_nat i + 1; Z.of_nat j] in let s := fun i : nat => [1; Z.of_nat i] in
  psumf 2 (fun i => psumf 2 (fun j => pmul (g i j) (pmul (s i) (s j))) 2) 2 = [1; 8].
Proof. reflexivity. Qed.

(* |x * t|_inf <= |x|_inf |t|_1 and the resulting bound of an error phase: this is the E_norm term of the oracle's envelope *)
Theorem C05_pmul_norm_bound : forall x t c Bd, length t = length x -> 0 <= Bd -> (forall i, Z.abs (nth i x 0) <= Bd) ->
  Z.abs (nth c (pmul x t) 0) <= Bd * norm1 t.
Proof. exact pmul_norm_bound. Qed.
Print Assumptions C05_pmul_norm_bound.
Theorem C05_error_phase_bound : forall (X : Type) (n : nat) (E sig : X -> list Z) (w : X -> Z) (l : list X) (c : nat),
  (forall x, In x l -> length (E x) = n /\ length (sig x) = n /\ 0 <= w x /\ forall k, Z.abs (nth k (E x) 0) <= w x) ->
  Z.abs (nth c (plsum n (map (fun x => pmul (E x) (sig x)) l)) 0) <= lsum (map (fun x => w x * norm1 (sig x)) l).
Proof. exact @error_phase_bound. Qed.
Print Assumptions C05_error_phase_bound.

(* ---- the normalisation hypotheses discharged from C08 (FFT64 family, equal radices b <= 62, accumulators within 2^62) ---- *)
Theorem C05_normalize_value_ok_fft64 : forall (n rsz dsz : nat) (P b lo : Z),
  1 <= b <= 62 -> zn rsz * b + zn dsz * b + Z.abs lo <= P ->
  forall D, wfl n D -> length D = dsz -> dom62 D ->
  length (eps64 n rsz P b lo D) = n /\ length (kap64 n rsz P b lo D) = n /\
  pval n P b (big_nrm true n rsz b b lo D) =
    padd (padd (pval n (P + lo) b D) (eps64 n rsz P b lo D)) (pscale (2 ^ P) (kap64 n rsz P b lo D)) /\
  forall c, Z.abs (nth c (eps64 n rsz P b lo D) 0) <= 2 ^ (P - zn rsz * b).
Proof. exact normalize_value_ok_fft64. Qed.
Print Assumptions C05_normalize_value_ok_fft64.

Theorem C05_nrm_no_overflow_fft64 : forall (n rsz dsz : nat) (P b lo : Z),
  1 <= b <= 62 -> zn rsz * b + zn dsz * b + Z.abs lo <= P ->
  forall D, wfl n D -> length D = dsz -> dom62 D -> forall u c, Z.abs (nth c (lim (big_nrm true n rsz b b lo D) u) 0) <= 2 ^ 61.
Proof. exact nrm64_no_overflow. Qed.
Print Assumptions C05_nrm_no_overflow_fft64.

(* C05_tensor_phase and C05_tensor_error_bound with no hypothesis on the normaliser left: the model's own big_nrm *)
Theorem C05_tensor_phase_fft64 :
  forall (n rsz dsz hi cols asz bsz : nat) (P b lo : Z) (A B : list plimbs) (sigma : nat * nat -> list Z),
  1 <= b <= 62 -> zn rsz * b + zn dsz * b + Z.abs lo <= P ->
  (forall i, (i < cols)%nat -> wfl n (colsel A i) /\ length (colsel A i) = asz) ->
  (forall i, (i < cols)%nat -> wfl n (colsel B i) /\ length (colsel B i) = bsz) ->
  (1 <= asz)%nat -> (1 <= bsz)%nat ->
  (forall i, (i < cols)%nat -> dom62 (Cn true n dsz hi A B i i)) ->
  (forall i j, (i < cols)%nat -> (j < cols)%nat -> i <> j -> dom62 (Pw true n dsz hi A B i j)) ->
  (forall ij, length (sigma ij) = n) ->
  forall res0 : list (list (list Z)), length res0 = length (tpairs cols) -> (forall r, In r res0 -> length r = rsz) ->
  phase n P b (tensor_gen (cell_apply true n (big_nrm true n rsz b b lo) dsz hi A B) cols res0) (map sigma (tpairs cols)) =
  padd (padd (plsum n (map (fun ij => pmul (Gm true n dsz hi P b lo A B ij) (sigma ij)) (tpairs cols)))
             (plsum n (map (fun ij => pmul (Em true n dsz hi (eps64 n rsz P b lo) A B ij) (sigma ij)) (tpairs cols))))
       (pscale (2 ^ P) (plsum n (map (fun ij => pmul (Km true n dsz hi (kap64 n rsz P b lo) A B ij) (sigma ij)) (tpairs cols))))
  /\ forall ij c, (fst ij < cols)%nat -> (snd ij < cols)%nat ->
     Z.abs (nth c (Em true n dsz hi (eps64 n rsz P b lo) A B ij) 0) <= (if Nat.eqb (fst ij) (snd ij) then 1 else 3) * 2 ^ (P - zn rsz * b).
Proof. exact tensor_phase_fft64. Qed.
Print Assumptions C05_tensor_phase_fft64.

Theorem C05_mul_plain_phase_fft64 :
  forall (n rsz dsz hi : nat) (P b lo : Z) (B : plimbs) (A : list plimbs) (key : list (list Z)),
  1 <= b <= 62 -> zn rsz * b + zn dsz * b + Z.abs lo <= P ->
  wfl n B -> (1 <= length B)%nat ->
  (forall a, In a A -> wfl n a /\ (1 <= length a)%nat /\ dom62 (cnv_apply true n dsz hi a B)) -> (forall k, In k key -> length k = n) ->
  let Cf := fun a => cnv_apply true n dsz hi a B in
  phase n P b (map (fun a => big_nrm true n rsz b b lo (Cf a)) A) key =
  padd (padd (plsum n (map (fun q => pmul (pval n (P + lo) b (Cf (fst q))) (snd q)) (combine A key)))
             (plsum n (map (fun q => pmul (eps64 n rsz P b lo (Cf (fst q))) (snd q)) (combine A key))))
       (pscale (2 ^ P) (plsum n (map (fun q => pmul (kap64 n rsz P b lo (Cf (fst q))) (snd q)) (combine A key))))
  /\ forall a c, In a A -> Z.abs (nth c (eps64 n rsz P b lo (Cf a)) 0) <= 2 ^ (P - zn rsz * b).
Proof. exact mul_plain_phase_fft64. Qed.
Print Assumptions C05_mul_plain_phase_fft64.

(* relinearisation, proved part: the phase of the tensor under (1, s, s (x) s) is the phase of its first rank+1 columns under (1, s)
   plus the phase of the s_i s_j columns under s (x) s; relinearisation keeps the former and key-switches the latter *)
Theorem C05_relinearize_phase_partial : forall n P b (T1 T2 : list plimbs) (k1 k2 : list (list Z)),
  length T1 = length k1 -> (forall t, In t (T1 ++ T2) -> wfl n t) ->
  phase n P b (T1 ++ T2) (k1 ++ k2) = padd (phase n P b T1 k1) (phase n P b T2 k2).
Proof. exact phase_split. Qed.
Print Assumptions C05_relinearize_phase_partial.

(* ---- the same discharge for the NTT120 family (i128 accumulator), from C08's width-128 theorems (Props/C08Wide.v) ---- *)
Theorem C05_normalize_value_ok_ntt120 : forall (n rsz dsz : nat) (P b lo : Z),
  1 <= b <= 62 -> zn rsz * b + zn dsz * b + Z.abs lo <= P ->
  forall D, wfl n D -> length D = dsz -> dom126 D ->
  length (eps128 n rsz P b lo D) = n /\ length (kap128 n rsz P b lo D) = n /\
  pval n P b (big_nrm false n rsz b b lo D) =
    padd (padd (pval n (P + lo) b D) (eps128 n rsz P b lo D)) (pscale (2 ^ P) (kap128 n rsz P b lo D)) /\
  forall c, Z.abs (nth c (eps128 n rsz P b lo D) 0) <= 2 ^ (P - zn rsz * b).
Proof. exact normalize_value_ok_ntt120. Qed.
Print Assumptions C05_normalize_value_ok_ntt120.

Theorem C05_tensor_phase_ntt120 :
  forall (n rsz dsz hi cols asz bsz : nat) (P b lo : Z) (A B : list plimbs) (sigma : nat * nat -> list Z),
  1 <= b <= 62 -> zn rsz * b + zn dsz * b + Z.abs lo <= P ->
  (forall i, (i < cols)%nat -> wfl n (colsel A i) /\ length (colsel A i) = asz) ->
  (forall i, (i < cols)%nat -> wfl n (colsel B i) /\ length (colsel B i) = bsz) ->
  (1 <= asz)%nat -> (1 <= bsz)%nat ->
  (forall i, (i < cols)%nat -> dom126 (Cn false n dsz hi A B i i)) ->
  (forall i j, (i < cols)%nat -> (j < cols)%nat -> i <> j -> dom126 (Pw false n dsz hi A B i j)) ->
  (forall ij, length (sigma ij) = n) ->
  forall res0 : list (list (list Z)), length res0 = length (tpairs cols) -> (forall r, In r res0 -> length r = rsz) ->
  phase n P b (tensor_gen (cell_apply false n (big_nrm false n rsz b b lo) dsz hi A B) cols res0) (map sigma (tpairs cols)) =
  padd (padd (plsum n (map (fun ij => pmul (Gm false n dsz hi P b lo A B ij) (sigma ij)) (tpairs cols)))
             (plsum n (map (fun ij => pmul (Em false n dsz hi (eps128 n rsz P b lo) A B ij) (sigma ij)) (tpairs cols))))
       (pscale (2 ^ P) (plsum n (map (fun ij => pmul (Km false n dsz hi (kap128 n rsz P b lo) A B ij) (sigma ij)) (tpairs cols))))
  /\ forall ij c, (fst ij < cols)%nat -> (snd ij < cols)%nat ->
     Z.abs (nth c (Em false n dsz hi (eps128 n rsz P b lo) A B ij) 0) <= (if Nat.eqb (fst ij) (snd ij) then 1 else 3) * 2 ^ (P - zn rsz * b).
Proof. exact tensor_phase_ntt120. Qed.
Print Assumptions C05_tensor_phase_ntt120.

Theorem C05_mul_plain_phase_ntt120 :
  forall (n rsz dsz hi : nat) (P b lo : Z) (B : plimbs) (A : list plimbs) (key : list (list Z)),
  1 <= b <= 62 -> zn rsz * b + zn dsz * b + Z.abs lo <= P ->
  wfl n B -> (1 <= length B)%nat ->
  (forall a, In a A -> wfl n a /\ (1 <= length a)%nat /\ dom126 (cnv_apply false n dsz hi a B)) -> (forall k, In k key -> length k = n) ->
  let Cf := fun a => cnv_apply false n dsz hi a B in
  phase n P b (map (fun a => big_nrm false n rsz b b lo (Cf a)) A) key =
  padd (padd (plsum n (map (fun q => pmul (pval n (P + lo) b (Cf (fst q))) (snd q)) (combine A key)))
             (plsum n (map (fun q => pmul (eps128 n rsz P b lo (Cf (fst q))) (snd q)) (combine A key))))
       (pscale (2 ^ P) (plsum n (map (fun q => pmul (kap128 n rsz P b lo (Cf (fst q))) (snd q)) (combine A key))))
  /\ forall a c, In a A -> Z.abs (nth c (eps128 n rsz P b lo (Cf a)) 0) <= 2 ^ (P - zn rsz * b).
Proof. exact mul_plain_phase_ntt120. Qed.
Print Assumptions C05_mul_plain_phase_ntt120.

(* ---- E_trunc: the limbs of the product that the convolution does not return ---- *)
(* full product of the operand values = pairs below the window (a multiple of 2^P) + what cnv_apply_dft returns + the dropped pairs *)
Theorem C05_prod_split : forall n P cnv ab (a b : plimbs), wfl n a -> forall hi dsz,
  prod_full n P cnv ab a b = padd (padd (prod_low n P cnv ab hi a b) (prod_win n P cnv ab hi dsz a b)) (prod_high n P cnv ab hi dsz a b).
Proof. exact prod_split. Qed.
Print Assumptions C05_prod_split.

Theorem C05_prod_full_is_product : forall n P cnv ab Qa Qb (a b : plimbs), wfl n a -> wfl n b -> 0 <= ab ->
  zn (length a) * ab <= Qa -> zn (length b) * ab <= Qb -> Qa + Qb <= P + cnv ->
  prod_full n P cnv ab a b = pscale (2 ^ (P + cnv - Qa - Qb)) (pmul (pval n Qa ab a) (pval n Qb ab b)).
Proof. exact prod_full_is_product. Qed.
Print Assumptions C05_prod_full_is_product.

Theorem C05_convolution_truncation : forall fft n dsz hi P ab lo cnv Qa Qb (a b : plimbs) Da Db,
  wfl n a -> wfl n b -> (1 <= length a)%nat -> (1 <= length b)%nat ->
  zn hi * ab + lo = cnv - ab -> 0 <= lo -> 0 <= ab -> 0 <= P ->
  zn (length a) * ab <= Qa -> zn (length b) * ab <= Qb -> Qa + Qb <= P + cnv ->
  0 <= Da -> 0 <= Db ->
  (forall u i, Z.abs (nth i (lim a u) 0) <= Da) -> (forall v i, Z.abs (nth i (lim b v) 0) <= Db) ->
  exists L E, length L = n /\ length E = n /\
    pscale (2 ^ (P + cnv - Qa - Qb)) (pmul (pval n Qa ab a) (pval n Qb ab b))
    = padd (padd (pscale (2 ^ P) L) (pval n (P + lo) ab (cnv_apply fft n dsz hi a b))) E /\
    forall k, Z.abs (nth k E 0) <= zn n * Da * Db * dropped_w P cnv ab (length a) (length b) (hi + dsz).
Proof. exact convolution_truncation. Qed.
Print Assumptions C05_convolution_truncation.
Example C05_convolution_truncation_ex :
  dropped_w 40 8 8 2 2 2 = 2 ^ 16 /\ dropped_w 40 8 8 2 2 3 = 0 /\
  prod_full 2 40 8 8 [[1; 2]; [3; 4]] [[5; 6]; [-1; 2]] =
  padd (padd (prod_low 2 40 8 8 0 [[1; 2]; [3; 4]] [[5; 6]; [-1; 2]]) (prod_win 2 40 8 8 0 2 [[1; 2]; [3; 4]] [[5; 6]; [-1; 2]]))
       (prod_high 2 40 8 8 0 2 [[1; 2]; [3; 4]] [[5; 6]; [-1; 2]]).
Proof. repeat split; reflexivity. Qed.

(* ---- relinearisation: the model of glwe_tensor_relinearize (Model/C05Relin.v, on Gadget.gadget_product) and its phase ---- *)
Section RelinProps.
Import PV.Model.Gadget PV.Model.GadgetSpec PV.Model.C05Relin.
(* the accumulator before the final normalisation: a key switch whose body is the whole (1, s) part of the tensor;
   `keyswitch_phase` = C03's hypothesis on the key rows (key_rows_ok) *)
Theorem C05_relinearize_internal_phase :
  forall (P b : Z) (n pairs cols msize a_size dsize dnum : nat) (T : cols_t) (K : pmat) (Sk s_in : nat -> list Z) (e I : nat -> nat -> list Z),
  wf_cols n (cols + pairs) a_size T -> wf_pmat_in n (dnum * pairs) (msize * cols) K ->
  (1 <= dsize)%nat -> (dsize - 2 <= msize)%nat ->
  (forall co, length (Sk co) = n) -> (forall ci, length (s_in ci) = n) ->
  (forall row ci, length (e row ci) = n) -> (forall row ci, length (I row ci) = n) ->
  0 <= b -> Z.of_nat msize * b <= P -> Z.of_nat dnum * Z.of_nat dsize * b <= P ->
  key_rows_ok P b n pairs cols msize dsize dnum K Sk s_in e I ->
  exists big, relinearize_internal n cols T a_size dsize dnum msize K = Some big /\
    wf_cols n cols msize big /\
    phase_f P b n cols msize (limbs_of big) Sk
    = padd (padd (padd (GadgetSpec.psumf n (fun co => pmul (GadgetSpec.pval P b n (acol n T co) (Nat.min msize a_size)) (Sk co)) cols)
                       (GadgetSpec.psumf n (fun ci => pmul (pval_used P b n a_size dsize dnum (acol n (skipn cols T)) ci) (s_in ci)) pairs))
                 (gadget_err P b n pairs cols msize dsize dnum (acol n (skipn cols T)) K Sk e))
           (Gadget.pscale (2 ^ P) (gadget_int b n pairs cols msize dsize dnum (acol n (skipn cols T)) K Sk I)).
Proof. exact Proofs.C05Relin.relinearize_internal_phase. Qed.
Print Assumptions C05_relinearize_internal_phase.

(* glwe_tensor_relinearize (tensor radix = key radix b, result radix rb): phase under s of the result; the per-column
   normalisation fact is a hypothesis here and discharged for FFT64 below *)
Theorem C05_relinearize_phase :
  forall (be P b rb : Z) (n pairs msize a_size res_size dsize dnum : nat) (T : cols_t) (K : pmat) (sk : list (list Z))
         (s_in : nat -> list Z) (e I : nat -> nat -> list Z) (Sb : Z),
  wf_cols n (S (length sk) + pairs) a_size T -> wf_pmat_in n (dnum * pairs) (msize * S (length sk)) K ->
  (1 <= n)%nat -> (1 <= dsize)%nat -> (dsize - 2 <= msize)%nat ->
  (forall s, In s sk -> length s = n) -> (forall s, In s sk -> pnorm s <= Sb) ->
  (forall ci, length (s_in ci) = n) -> (forall row ci, length (e row ci) = n) -> (forall row ci, length (I row ci) = n) ->
  0 <= b -> Z.of_nat msize * b <= P -> Z.of_nat dnum * Z.of_nat dsize * b <= P ->
  key_rows_ok P b n pairs (S (length sk)) msize dsize dnum K (sk_ext n sk) s_in e I ->
  (forall big, relinearize_internal n (S (length sk)) T a_size dsize dnum msize K = Some big ->
     forall co, (co < S (length sk))%nat -> Proofs.GadgetNorm.normalize_value_ok (wbig be) P n rb b res_size (col big co)) ->
  exists res R Itot,
    glwe_relinearize be n b b rb (length sk) a_size res_size dsize dnum msize T K = Some res /\
    wf_cols n (S (length sk)) res_size res /\ length R = n /\ length Itot = n /\
    phase_val P rb n sk res
    = padd (padd (padd (padd (GadgetSpec.psumf n (fun co => pmul (GadgetSpec.pval P b n (acol n T co) (Nat.min msize a_size)) (sk_ext n sk co)) (S (length sk)))
                             (GadgetSpec.psumf n (fun ci => pmul (pval_used P b n a_size dsize dnum (acol n (skipn (S (length sk)) T)) ci) (s_in ci)) pairs))
                       (gadget_err P b n pairs (S (length sk)) msize dsize dnum (acol n (skipn (S (length sk)) T)) K (sk_ext n sk) e))
                 R)
           (Gadget.pscale (2 ^ P) Itot) /\
    pnorm R <= (1 + Z.of_nat (length sk) * Z.of_nat n * Sb) * 2 ^ (P - Z.of_nat res_size * rb).
Proof. exact Proofs.C05Relin.relinearize_phase_final. Qed.
Print Assumptions C05_relinearize_phase.

(* explicit envelope of the key-switch error of the relinearisation for dsize <= 2 (C03's gadget bound) *)
Theorem C05_relinearize_noise_bound :
  forall (P b : Z) (n pairs cols msize a_size dsize dnum : nat) (T : cols_t) (K : pmat) (Sk : nat -> list Z) (e : nat -> nat -> list Z) (D B : Z),
  wf_cols n (cols + pairs) a_size T -> (forall co, length (Sk co) = n) -> (forall row ci, length (e row ci) = n) ->
  (dsize <= 2)%nat -> 0 <= B ->
  (forall ci l, pnorm (acol n (skipn cols T) ci l) <= D) -> (forall row ci, pnorm (e row ci) <= B) ->
  pnorm (gadget_err P b n pairs cols msize dsize dnum (acol n (skipn cols T)) K Sk e)
  <= Z.of_nat dnum * Z.of_nat pairs * Z.of_nat n * (D * zsum (fun t => 2 ^ (Z.of_nat t * b)) dsize) * B.
Proof. exact Proofs.C05Relin.relinearize_noise_bound. Qed.
Print Assumptions C05_relinearize_noise_bound.

(* when the key has at least as many limbs / digits as the tensor, the two sums are the phase of the whole tensor under (1, s, s (x) s) *)
Theorem C05_relin_sums_are_tensor_phase :
  forall n P b cols pairs msize a_size dsize dnum (T : cols_t) (Sk s_in : nat -> list Z),
  wf_cols n (cols + pairs) a_size T -> (a_size <= msize)%nat -> (a_size <= dnum * dsize)%nat ->
  (forall co, length (Sk co) = n) -> (forall ci, length (s_in ci) = n) ->
  padd (GadgetSpec.psumf n (fun co => pmul (GadgetSpec.pval P b n (acol n T co) (Nat.min msize a_size)) (Sk co)) cols)
       (GadgetSpec.psumf n (fun ci => pmul (pval_used P b n a_size dsize dnum (acol n (skipn cols T)) ci) (s_in ci)) pairs)
  = C05Spec.phase n P b T (map Sk (seq 0 cols) ++ map s_in (seq 0 pairs)).
Proof. exact Proofs.C05RelinPhase.relin_sums_are_tensor_phase. Qed.
Print Assumptions C05_relin_sums_are_tensor_phase.

(* C05_relinearize_phase_full: decrypt(relinearize(tensor(a, b))), FFT64 family, one radix b everywhere, no hypothesis on any normaliser left:
     = tensor product of the two ciphertext vectors under sigma over exact products (Gm; C05_product_position, C05_convolution_truncation,
       C05_tensor_resummation say what it is in terms of phase(a) phase(b))
     + normalisation error of the tensor (Em: 1 resp. 3 units per column) + 2^P (integer)
     + gadget error of the key switch (C03; C05_relinearize_noise_bound) + rounding R of the final normalisation + 2^P (integer) *)
Theorem C05_relinearize_phase_full :
  forall (be : Z) (n rsz dsz hi asz bsz pairs msize res_size dsize dnum : nat) (P b lo : Z) (A B : list plimbs)
         (sigma : nat * nat -> list Z) (sk : list (list Z)) (s_in : nat -> list Z) (e I : nat -> nat -> list Z) (Sb : Z) (K : pmat)
         (res0 : list (list (list Z))),
  let cols := S (length sk) in
  let T := tensor_gen (cell_apply true n (big_nrm true n rsz b b lo) dsz hi A B) cols res0 in
  be <= 2 -> 1 <= b <= 62 -> (1 <= n)%nat ->
  zn rsz * b + zn dsz * b + Z.abs lo <= P -> (Z.of_nat res_size + Z.of_nat msize) * b <= P -> Z.of_nat dnum * Z.of_nat dsize * b <= P ->
  (forall i, (i < cols)%nat -> wfl n (colsel A i) /\ length (colsel A i) = asz) ->
  (forall i, (i < cols)%nat -> wfl n (colsel B i) /\ length (colsel B i) = bsz) ->
  (1 <= asz)%nat -> (1 <= bsz)%nat ->
  (forall i, (i < cols)%nat -> dom62 (Cn true n dsz hi A B i i)) ->
  (forall i j, (i < cols)%nat -> (j < cols)%nat -> i <> j -> dom62 (Pw true n dsz hi A B i j)) ->
  (forall ij, length (sigma ij) = n) ->
  length (tpairs cols) = (cols + pairs)%nat -> length res0 = length (tpairs cols) -> (forall r, In r res0 -> length r = rsz) ->
  map sigma (tpairs cols) = map (sk_ext n sk) (seq 0 cols) ++ map s_in (seq 0 pairs) ->
  wf_pmat_in n (dnum * pairs) (msize * cols) K -> (1 <= dsize)%nat -> (dsize - 2 <= msize)%nat ->
  (rsz <= msize)%nat -> (rsz <= dnum * dsize)%nat ->
  (forall s, In s sk -> length s = n) -> (forall s, In s sk -> pnorm s <= Sb) ->
  (forall ci, length (s_in ci) = n) -> (forall row ci, length (e row ci) = n) -> (forall row ci, length (I row ci) = n) ->
  key_rows_ok P b n pairs cols msize dsize dnum K (sk_ext n sk) s_in e I ->
  (forall big, relinearize_internal n cols T rsz dsize dnum msize K = Some big ->
     forall co j k, Z.abs (nth k (lim (col big co) j) 0) <= 2 ^ 62) ->
  exists res R Itot,
    glwe_relinearize be n b b b (length sk) rsz res_size dsize dnum msize T K = Some res /\
    length R = n /\ length Itot = n /\
    phase_val P b n sk res =
    padd (padd (padd (padd (padd
      (plsum n (map (fun ij => pmul (Gm true n dsz hi P b lo A B ij) (sigma ij)) (tpairs cols)))
      (plsum n (map (fun ij => pmul (Em true n dsz hi (eps64 n rsz P b lo) A B ij) (sigma ij)) (tpairs cols))))
      (C05Spec.pscale (2 ^ P) (plsum n (map (fun ij => pmul (Km true n dsz hi (kap64 n rsz P b lo) A B ij) (sigma ij)) (tpairs cols)))))
      (gadget_err P b n pairs cols msize dsize dnum (acol n (skipn cols T)) K (sk_ext n sk) e))
      R) (Gadget.pscale (2 ^ P) Itot) /\
    pnorm R <= (1 + Z.of_nat (length sk) * Z.of_nat n * Sb) * 2 ^ (P - Z.of_nat res_size * b) /\
    (forall ij c, (fst ij < cols)%nat -> (snd ij < cols)%nat ->
       Z.abs (nth c (Em true n dsz hi (eps64 n rsz P b lo) A B ij) 0) <= (if Nat.eqb (fst ij) (snd ij) then 1 else 3) * 2 ^ (P - zn rsz * b)).
Proof. exact Proofs.C05RelinPhase.relinearize_of_tensor_phase_fft64. Qed.
Print Assumptions C05_relinearize_phase_full.

(* the hypotheses of the relinearisation theorems are satisfiable (C03's example key: rank 1, one pair, n = 2), and the model runs *)
Example C05_relinearize_ex :
  let T : cols_t := [[1; 2]; [3; 4]] :: Proofs.C03Phase.ex3_ct in
  (exists big, relinearize_internal 2 2 T 2 2 1 2 Proofs.C03Phase.ex3_K = Some big /\ wf_cols 2 2 2 big) /\
  glwe_relinearize 1 2 4 4 4 1 2 2 2 1 2 T Proofs.C03Phase.ex3_K = Some [[[-5; -8]; [-5; -5]]; [[1; 2]; [3; 4]]].
Proof.
  intros T. split; [|reflexivity].
  destruct Proofs.C03Phase.C03_hypotheses_satisfiable_lemma as (_ & HK & _ & _ & Hd & Hdr & HS & _ & Hsin & Hz & Hb & HP & HP2 & Hkey).
  destruct (C05_relinearize_internal_phase 8 4 2 1 2 2 2 2 1 T Proofs.C03Phase.ex3_K (sk_ext 2 Proofs.C03Phase.ex3_sk)
              Proofs.C03Phase.ex3_sin Proofs.C03Phase.ex3_zero Proofs.C03Phase.ex3_zero) as (big & E1 & E2 & _); try assumption.
  - split; [reflexivity|]. intros [|[|[|ci]]] Hci; try lia; (split; [reflexivity|]); intros [|[|l]] Hl; try lia; reflexivity.
  - exists big. split; assumption.
Qed.
End RelinProps.

