(* C05 — placeholder while the proofs are being written *)
From PV Require Import Base.MachineInt Model.C05Cnv Model.C05Core.
Open Scope Z_scope.
Theorem C05_placeholder : offset_split 7 3 = (0, -4).
Proof. reflexivity. Qed.
Print Assumptions C05_placeholder.
