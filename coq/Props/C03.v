(* C03 — key-switching family.  Pinned statements only. *)
From PV Require Import Base.MachineInt Model.Znx Model.Limbs Model.Flat Model.Ring Model.Poly Model.DftAbs Model.Gadget Model.GadgetOracle Model.C03Run.
Open Scope Z_scope.

Theorem C03_placeholder : digit_bound 3 2 = 36.
Proof. reflexivity. Qed.
Print Assumptions C03_placeholder.
