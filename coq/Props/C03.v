(* C03 — key-switching family.  Pinned statements only (proofs: Proofs/GadgetDecomp.v, GadgetPhase.v, GadgetBound.v, C03Phase.v;
   spec-level notions: Model/GadgetSpec.v).
   Reading guide.  psumf n f m = sum_{i<m} f i in Z[X]/(X^n+1); pval P b n f size = sum_j 2^(P-(j+1)b) f_j; acol n a ci l = limb l of
   column ci (zero beyond the last limb); phase_f P b n cols size R Sk = sum_co pval(R co) (x) Sk co (Sk 0 = 1);
   gp_spec = functional form of Gadget.gadget_product; kphase q = phase of key cell q = (row, ci);
   key_rows_ok = "cell (row, ci) has phase 2^(P-(row+1) dsize b) src_ci + e_{row,ci} + 2^P I_{row,ci}" (HYPOTHESIS of the phase theorems);
   gadget_err = gadget_noise - gadget_trunc (explicit), gadget_noise = sum_{row,ci} digit (x) e, gadget_trunc = contribution of the key limbs
   that the product of digit di drops (zero for dsize <= 2), gadget_int = the multiple of 2^P. *)
From PV Require Import Base.MachineInt Model.Znx Model.Limbs Model.Flat Model.Ring Model.Poly Model.DftAbs Model.Gadget Model.GadgetOracle Model.C03Run.
From PV Require Import Model.GadgetSpec Proofs.C07Dft Proofs.C07Ring Proofs.GadgetDecomp Proofs.GadgetPhase Proofs.GadgetBound Proofs.C03Phase Proofs.C04Phase Model.GadgetEnc Proofs.GadgetEnc Proofs.GadgetNorm Model.GadgetDerived Proofs.GadgetSigma Proofs.GadgetShape Proofs.GadgetDerived.
Open Scope Z_scope.

(* (1) limbs grouped by (step = dsize, offset = dsize-di-1) recombine to the value: pure index arithmetic, all shapes *)
Theorem C03_gadget_decomposition_exact :
  forall (P b : Z) (dsize a_size : nat) (a : nat -> Z),
    (1 <= dsize)%nat ->
    zsum (fun l : nat => a l * 2 ^ (P - (Z.of_nat l + 1) * b)) a_size =
    zsum
      (fun di : nat =>
       zsum (fun q : nat => a (q * dsize + (dsize - di - 1))%nat * 2 ^ (P - (Z.of_nat q + 1) * Z.of_nat dsize * b + Z.of_nat di * b))
         ((a_size + di) / dsize)) dsize.
Proof. exact gadget_decomposition_exact. Qed.
Print Assumptions C03_gadget_decomposition_exact.

(* (1) with a key of dnum rows exactly the limbs l < min(a_size, dnum*dsize) survive *)
Theorem C03_gadget_decomposition_clamped :
  forall (P b : Z) (dsize dnum a_size : nat) (a : nat -> Z),
    (1 <= dsize)%nat ->
    zsum
      (fun di : nat =>
       zsum (fun q : nat => a (q * dsize + (dsize - di - 1))%nat * 2 ^ (P - (Z.of_nat q + 1) * Z.of_nat dsize * b + Z.of_nat di * b))
         (Nat.min ((a_size + di) / dsize) dnum)) dsize =
    zsum (fun l : nat => a l * 2 ^ (P - (Z.of_nat l + 1) * b)) (Nat.min a_size (dnum * dsize)).
Proof. exact gadget_decomposition_clamped. Qed.
Print Assumptions C03_gadget_decomposition_clamped.

(* (1) the difference to the full value is the dropped tail l in [dnum*dsize, a_size) *)
Theorem C03_gadget_decomposition_tail :
  forall (P b : Z) (dsize dnum a_size : nat) (a : nat -> Z),
    (1 <= dsize)%nat ->
    zsum (fun l : nat => a l * 2 ^ (P - (Z.of_nat l + 1) * b)) a_size =
    zsum
      (fun di : nat =>
       zsum (fun q : nat => a (q * dsize + (dsize - di - 1))%nat * 2 ^ (P - (Z.of_nat q + 1) * Z.of_nat dsize * b + Z.of_nat di * b))
         (Nat.min ((a_size + di) / dsize) dnum)) dsize +
    zsum (fun i : nat => a (dnum * dsize + i)%nat * 2 ^ (P - (Z.of_nat (dnum * dsize + i) + 1) * b)) (a_size - dnum * dsize).
Proof. exact gadget_decomposition_tail. Qed.
Print Assumptions C03_gadget_decomposition_tail.

(* (1) on polynomial limbs *)
Theorem C03_gadget_decomposition_poly :
  forall (P b : Z) (n dsize dnum a_size : nat) (a : nat -> list Z),
    (1 <= dsize)%nat ->
    (forall l : nat, length (a l) = n) ->
    psumf n
      (fun di : nat =>
       psumf n (fun q : nat => pscale (2 ^ (P - (Z.of_nat q + 1) * Z.of_nat dsize * b + Z.of_nat di * b)) (a (q * dsize + (dsize - di - 1))%nat))
         (Nat.min ((a_size + di) / dsize) dnum)) dsize = pval P b n a (Nat.min a_size (dnum * dsize)).
Proof. exact gadget_decomposition_poly. Qed.
Print Assumptions C03_gadget_decomposition_poly.

(* (1) the model's (step, offset) selection is that grouping; the selected index always exists *)
Theorem C03_dft_select_digit :
  forall (n sz dsize di : nat) (a : plimbs) (q : nat),
    (1 <= dsize)%nat ->
    (di < dsize)%nat ->
    (q < sz)%nat ->
    (sz <= (length a + di) / dsize)%nat ->
    lim (dft_select n sz dsize (dsize - di - 1) a) q =
    (if (q * dsize + (dsize - di - 1) <? length a)%nat then lim a (q * dsize + (dsize - di - 1)) else pzero n) /\
    (q * dsize + (dsize - di - 1) < length a)%nat.
Proof. exact dft_select_digit. Qed.
Print Assumptions C03_dft_select_digit.

(* (2) the repaired entry point zeroes the accumulator: key-switch mode for EVERY prior content, external-product mode for every prior content of cols_out columns of msize limbs *)
Theorem C03_acc_start_zero :
  forall (n cols_out msize : nat) (clamp : bool) (res0 : cols_t),
    acc_shape cols_out msize clamp res0 -> acc_start n cols_out msize msize clamp res0 = zcols n cols_out msize.
Proof. exact acc_start_zero. Qed.
Print Assumptions C03_acc_start_zero.

Theorem C03_gadget_product_is_from_zero :
  forall (n cols_out msize : nat) (res0 a : cols_t) (a_size dsize dnum : nat) (clamp : bool) (m : pmat),
    acc_shape cols_out msize clamp res0 ->
    gadget_product n cols_out msize res0 a a_size dsize dnum msize clamp m =
    gadget_product_from n cols_out msize (zcols n cols_out msize) a a_size dsize dnum msize clamp m.
Proof. exact gadget_product_is_from_zero. Qed.
Print Assumptions C03_gadget_product_is_from_zero.

(* (2) the model IS the functional form, whatever the accumulator held; every dsize >= 1, both modes *)
Theorem C03_gadget_product_spec :
  forall (n cin cols_out msize a_size dsize dnum : nat) (clamp : bool) (a : cols_t) (m : pmat) (res0 : cols_t),
    wf_cols n cin a_size a ->
    (1 <= dsize)%nat ->
    (dsize - 2 <= msize)%nat ->
    acc_shape cols_out msize clamp res0 ->
    exists res : cols_t,
      gadget_product n cols_out msize res0 a a_size dsize dnum msize clamp m = Some res /\
      wf_cols n cols_out msize res /\
      (forall co j : nat,
       (co < cols_out)%nat -> (j < msize)%nat -> lim (col res co) j = gp_spec n cin cols_out msize a_size dsize dnum clamp (acol n a) m co j).
Proof. exact gadget_product_spec. Qed.
Print Assumptions C03_gadget_product_spec.

(* (2) the digit loop from a given accumulator content res0 of R >= msize limbs (what the code did before it zeroed the accumulator): limbs j >= sz_r(0) keep their prior content *)
Theorem C03_gadget_product_from_spec_grouped :
  forall (n cin cols_out msize a_size dsize dnum : nat) (clamp : bool) (a : cols_t) (m : pmat),
    wf_cols n cin a_size a ->
    forall (R : nat) (res0 : cols_t),
    wf_cols n cols_out R res0 ->
    (dsize - 2 <= msize)%nat ->
    (msize <= R)%nat ->
    (2 <= dsize)%nat ->
    exists res : cols_t,
      gadget_product_from n cols_out R res0 a a_size dsize dnum msize clamp m = Some res /\
      length res = cols_out /\
      (forall co : nat,
       (co < cols_out)%nat ->
       length (col res co) = R /\
       (forall j : nat,
        (j < R)%nat ->
        lim (col res co) j =
        padd (if (j <? sz_r msize dsize 0)%nat then pzero n else lim (col res0 co) j)
          (gp_spec n cin cols_out msize a_size dsize dnum clamp (acol n a) m co j))).
Proof. exact gadget_product_from_spec_grouped. Qed.
Print Assumptions C03_gadget_product_from_spec_grouped.

(* (2) dsize = 1: one vmp, res0 ignored *)
Theorem C03_gadget_product_from_spec_flat :
  forall (n cin cols_out msize a_size dnum : nat) (clamp : bool) (a : cols_t) (m : pmat),
    wf_cols n cin a_size a ->
    forall (R : nat) (res0 : cols_t),
    exists res : cols_t,
      gadget_product_from n cols_out R res0 a a_size 1 dnum msize clamp m = Some res /\
      length res = cols_out /\
      (forall co : nat,
       (co < cols_out)%nat ->
       length (col res co) = R /\
       (forall j : nat, (j < R)%nat -> lim (col res co) j = gp_flat n cin cols_out msize a_size dnum (acol n a) m R co j)).
Proof. exact gadget_product_from_spec_flat. Qed.
Print Assumptions C03_gadget_product_from_spec_flat.

(* (3a) exact phase of the functional form under any secret family *)
Theorem C03_gadget_phase_exact :
  forall (P b : Z) (n cin cols_out msize a_size dsize dnum : nat) (clamp : bool) (A : nat -> nat -> list Z) (K : pmat) (Sk : nat -> list Z),
    (forall ci l : nat, length (A ci l) = n) ->
    (forall q c : nat, length (K q c) = n) ->
    (forall co : nat, length (Sk co) = n) ->
    0 <= b ->
    Z.of_nat msize * b <= P ->
    phase_f P b n cols_out msize (gp_spec n cin cols_out msize a_size dsize dnum clamp A K) Sk =
    psumf n
      (fun di : nat =>
       psumf n
         (fun row : nat =>
          psumf n
            (fun ci : nat =>
             pmul (A ci (row * dsize + (dsize - di - 1))%nat)
               (pscale (2 ^ (Z.of_nat di * b)) (ktrunc P b n cols_out msize dsize K Sk (row * cin + ci) di))) cin)
         (rows_used a_size dsize dnum di clamp)) dsize.
Proof. exact gadget_phase_exact. Qed.
Print Assumptions C03_gadget_phase_exact.

(* (3) under the key-row hypothesis: phase = sum_ci val(used limbs) (x) src_ci + E + 2^P Iq, E and Iq explicit, all shapes *)
Theorem C03_gadget_phase_rows :
  forall (P b : Z) (n cin cols_out msize a_size dsize dnum : nat) (clamp : bool) (A : nat -> nat -> list Z) (K : pmat)
      (Sk src : nat -> list Z) (e I : nat -> nat -> list Z),
    (1 <= dsize)%nat ->
    (forall ci l : nat, length (A ci l) = n) ->
    (forall ci l : nat, (a_size <= l)%nat -> A ci l = pzero n) ->
    wf_pmat_in n (dnum * cin) (msize * cols_out) K ->
    (forall co : nat, length (Sk co) = n) ->
    (forall ci : nat, length (src ci) = n) ->
    (forall row ci : nat, length (e row ci) = n) ->
    (forall row ci : nat, length (I row ci) = n) ->
    0 <= b ->
    Z.of_nat msize * b <= P ->
    Z.of_nat dnum * Z.of_nat dsize * b <= P ->
    key_rows_ok P b n cin cols_out msize dsize dnum K Sk src e I ->
    phase_f P b n cols_out msize (gp_spec n cin cols_out msize a_size dsize dnum clamp A K) Sk =
    padd
      (padd (psumf n (fun ci : nat => pmul (pval_used P b n a_size dsize dnum A ci) (src ci)) cin)
         (gadget_err P b n cin cols_out msize dsize dnum A K Sk e)) (pscale (2 ^ P) (gadget_int b n cin cols_out msize dsize dnum A K Sk I)).
Proof. exact gadget_phase_rows_in. Qed.
Print Assumptions C03_gadget_phase_rows.

(* (3b) the product part of the key switch (gglwe_product_dft) on the model, any prior accumulator content res0 *)
Theorem C03_keyswitch_phase :
  forall (P b : Z) (n rin cols_out msize a_size dsize dnum : nat) (a res0 : cols_t) (K : pmat) (Sk s_in : nat -> list Z)
      (e I : nat -> nat -> list Z),
    wf_cols n rin a_size a ->
    wf_pmat_in n (dnum * rin) (msize * cols_out) K ->
    (1 <= dsize)%nat ->
    (dsize - 2 <= msize)%nat ->
    (forall co : nat, length (Sk co) = n) ->
    (forall ci : nat, length (s_in ci) = n) ->
    (forall row ci : nat, length (e row ci) = n) ->
    (forall row ci : nat, length (I row ci) = n) ->
    0 <= b ->
    Z.of_nat msize * b <= P ->
    Z.of_nat dnum * Z.of_nat dsize * b <= P ->
    key_rows_ok P b n rin cols_out msize dsize dnum K Sk s_in e I ->
    exists res : cols_t,
      gadget_product n cols_out msize res0 a a_size dsize dnum msize true K = Some res /\
      wf_cols n cols_out msize res /\
      phase_f P b n cols_out msize (limbs_of res) Sk =
      padd
        (padd (psumf n (fun ci : nat => pmul (pval_used P b n a_size dsize dnum (acol n a) ci) (s_in ci)) rin)
           (gadget_err P b n rin cols_out msize dsize dnum (acol n a) K Sk e))
        (pscale (2 ^ P) (gadget_int b n rin cols_out msize dsize dnum (acol n a) K Sk I)).
Proof. exact C03_keyswitch_phase_lemma. Qed.
Print Assumptions C03_keyswitch_phase.

(* (3b) glwe_keyswitch_internal: + min(msize, a_size) limbs of the body *)
Theorem C03_keyswitch_internal_phase :
  forall (P b : Z) (n rin cols_out msize a_size dsize dnum : nat) (ct res0 : cols_t) (K : pmat) (Sk s_in : nat -> list Z)
      (e I : nat -> nat -> list Z),
    wf_cols n (S rin) a_size ct ->
    wf_pmat_in n (dnum * rin) (msize * cols_out) K ->
    (1 <= n)%nat ->
    (1 <= cols_out)%nat ->
    (1 <= dsize)%nat ->
    (dsize - 2 <= msize)%nat ->
    (forall co : nat, length (Sk co) = n) ->
    Sk 0%nat = pone n ->
    (forall ci : nat, length (s_in ci) = n) ->
    (forall row ci : nat, length (e row ci) = n) ->
    (forall row ci : nat, length (I row ci) = n) ->
    0 <= b ->
    Z.of_nat msize * b <= P ->
    Z.of_nat dnum * Z.of_nat dsize * b <= P ->
    key_rows_ok P b n rin cols_out msize dsize dnum K Sk s_in e I ->
    exists ks : cols_t,
      keyswitch_internal n cols_out msize res0 ct a_size dsize dnum msize K = Some ks /\
      wf_cols n cols_out msize ks /\
      phase_f P b n cols_out msize (limbs_of ks) Sk =
      padd
        (padd
           (padd (pval P b n (acol n ct 0) (Nat.min msize a_size))
              (psumf n (fun ci : nat => pmul (pval_used P b n a_size dsize dnum (acol n (tl ct)) ci) (s_in ci)) rin))
           (gadget_err P b n rin cols_out msize dsize dnum (acol n (tl ct)) K Sk e))
        (pscale (2 ^ P) (gadget_int b n rin cols_out msize dsize dnum (acol n (tl ct)) K Sk I)).
Proof. exact C03_keyswitch_internal_phase_lemma. Qed.
Print Assumptions C03_keyswitch_internal_phase.

(* (3d) automorphism = key switch under Sk = sigma^-1(St), then sigma on every limb; sigma_* are hypotheses (any ring homomorphism sg) *)
Theorem C03_automorphism_phase :
  forall (n : nat) (sg : list Z -> list Z),
    (forall a : list Z, length a = n -> length (sg a) = n) ->
    (forall a b : list Z, length a = n -> length b = n -> sg (padd a b) = padd (sg a) (sg b)) ->
    (forall a b : list Z, length a = n -> length b = n -> sg (pmul a b) = pmul (sg a) (sg b)) ->
    (forall (c : Z) (a : list Z), length a = n -> sg (pscale c a) = pscale c (sg a)) ->
    forall (P b : Z) (rin cols_out msize a_size dsize dnum : nat) (ct res0 : cols_t) (K : pmat) (Sk St s_in : nat -> list Z)
      (e I : nat -> nat -> list Z),
    wf_cols n (S rin) a_size ct ->
    wf_pmat_in n (dnum * rin) (msize * cols_out) K ->
    (1 <= n)%nat ->
    (1 <= cols_out)%nat ->
    (1 <= dsize)%nat ->
    (dsize - 2 <= msize)%nat ->
    (forall co : nat, length (Sk co) = n) ->
    Sk 0%nat = pone n ->
    (forall co : nat, St co = sg (Sk co)) ->
    (forall ci : nat, length (s_in ci) = n) ->
    (forall row ci : nat, length (e row ci) = n) ->
    (forall row ci : nat, length (I row ci) = n) ->
    0 <= b ->
    Z.of_nat msize * b <= P ->
    Z.of_nat dnum * Z.of_nat dsize * b <= P ->
    key_rows_ok P b n rin cols_out msize dsize dnum K Sk s_in e I ->
    exists ks : cols_t,
      keyswitch_internal n cols_out msize res0 ct a_size dsize dnum msize K = Some ks /\
      wf_cols n cols_out msize ks /\
      phase_f P b n cols_out msize (limbs_of (map (map sg) ks)) St =
      padd
        (padd
           (sg
              (padd (pval P b n (acol n ct 0) (Nat.min msize a_size))
                 (psumf n (fun ci : nat => pmul (pval_used P b n a_size dsize dnum (acol n (tl ct)) ci) (s_in ci)) rin)))
           (sg (gadget_err P b n rin cols_out msize dsize dnum (acol n (tl ct)) K Sk e)))
        (pscale (2 ^ P) (sg (gadget_int b n rin cols_out msize dsize dnum (acol n (tl ct)) K Sk I))).
Proof. exact C03_automorphism_phase_lemma. Qed.
Print Assumptions C03_automorphism_phase.

(* for dsize <= 2 no key limb is dropped: E = gadget noise *)
Theorem C03_gadget_err_small_dsize :
  forall (P b : Z) (n cin cols_out msize dsize dnum : nat) (A : nat -> nat -> list Z) (K : pmat) (Sk : nat -> list Z),
    (forall ci l : nat, length (A ci l) = n) ->
    (forall co : nat, length (Sk co) = n) ->
    forall e : nat -> nat -> list Z,
    (forall row ci : nat, length (e row ci) = n) ->
    (dsize <= 2)%nat -> gadget_err P b n cin cols_out msize dsize dnum A K Sk e = gadget_noise b n cin dsize dnum A e.
Proof. exact gadget_err_small. Qed.
Print Assumptions C03_gadget_err_small_dsize.

(* (4) sup-norm facts *)
Theorem C03_pnorm_padd :
  forall a b : list Z, pnorm (padd a b) <= pnorm a + pnorm b.
Proof. exact pnorm_padd. Qed.
Print Assumptions C03_pnorm_padd.

Theorem C03_pnorm_pscale :
  forall (c : Z) (a : list Z), pnorm (pscale c a) = Z.abs c * pnorm a.
Proof. exact pnorm_pscale. Qed.
Print Assumptions C03_pnorm_pscale.

Theorem C03_pnorm_pmul :
  forall a b : list Z, length b = length a -> pnorm (pmul a b) <= Z.of_nat (length a) * pnorm a * pnorm b.
Proof. exact pnorm_pmul. Qed.
Print Assumptions C03_pnorm_pmul.

Theorem C03_pnorm_psumf :
  forall (n : nat) (f : nat -> list Z) (m : nat), pnorm (psumf n f m) <= zsum (fun i : nat => pnorm (f i)) m.
Proof. exact pnorm_psumf. Qed.
Print Assumptions C03_pnorm_psumf.

(* (4) the gadget noise is below rows * cin * n * Dgroup * B *)
Theorem C03_keyswitch_bound :
  forall (b : Z) (n cin dsize rows : nat) (A e : nat -> nat -> list Z) (D B : Z),
    0 <= B ->
    (forall ci l : nat, length (A ci l) = n) ->
    (forall row ci : nat, length (e row ci) = n) ->
    (forall ci l : nat, pnorm (A ci l) <= D) ->
    (forall row ci : nat, pnorm (e row ci) <= B) ->
    pnorm (psumf n (fun row : nat => psumf n (fun ci : nat => pmul (digit b n dsize A ci row) (e row ci)) cin) rows) <=
    Z.of_nat rows * Z.of_nat cin * Z.of_nat n * (D * zsum (fun t : nat => 2 ^ (Z.of_nat t * b)) dsize) * B.
Proof. exact C03_keyswitch_bound. Qed.
Print Assumptions C03_keyswitch_bound.

(* (4) ... which is the `gadget` term of Gadget.gadget_env *)
Theorem C03_keyswitch_bound_env :
  forall (P b D : Z) (n cin dsize dnum a_size msize : nat) (A e : nat -> nat -> list Z) (rank_out S0 Ssrc Bkey rb : Z)
      (res_size : nat) (body : bool),
    (1 <= dsize)%nat ->
    0 <= D ->
    0 <= Bkey ->
    0 <= rank_out ->
    0 <= S0 ->
    0 <= Ssrc ->
    (forall ci l : nat, length (A ci l) = n) ->
    (forall row ci : nat, length (e row ci) = n) ->
    (forall ci l : nat, (a_size <= l)%nat -> A ci l = pzero n) ->
    (forall ci l : nat, pnorm (A ci l) <= D) ->
    (forall row ci : nat, pnorm (e row ci) <= Bkey) ->
    pnorm (gadget_noise b n cin dsize dnum A e) <=
    gadget_env P (Z.of_nat n) b D dsize dnum a_size msize (Z.of_nat cin) rank_out S0 Ssrc Bkey rb res_size body.
Proof. exact C03_keyswitch_bound_env. Qed.
Print Assumptions C03_keyswitch_bound_env.

(* link to the executable spec values of Model/Gadget.v: poly_val = pval, phase_val = phase_f under (1, sk) *)
Theorem C03_poly_val_pval :
  forall (P b : Z) (n : nat) (l : plimbs), poly_val P b n l = pval P b n (lim l) (length l).
Proof. exact poly_val_pval. Qed.
Print Assumptions C03_poly_val_pval.

Theorem C03_phase_val_phase_f :
  forall (P b : Z) (n : nat) (sk : list (list Z)) (ct : cols_t) (size : nat),
    (1 <= n)%nat ->
    wf_cols n (S (length sk)) size ct ->
    (forall i : nat, (i < length sk)%nat -> length (nth i sk (pzero n)) = n) ->
    phase_val P b n sk ct = phase_f P b n (S (length sk)) size (limbs_of ct) (sk_ext n sk).
Proof. exact phase_val_phase_f. Qed.
Print Assumptions C03_phase_val_phase_f.

(* (3b) glwe_keyswitch_internal with Gadget.phase_val on the left *)
Theorem C03_keyswitch_internal_phase_val :
  forall (P b : Z) (n rin msize a_size dsize dnum : nat) (ct res0 : cols_t) (K : pmat) (sk_out : list (list Z)) (s_in : nat -> list Z)
      (e I : nat -> nat -> list Z),
    wf_cols n (S rin) a_size ct ->
    wf_pmat_in n (dnum * rin) (msize * S (length sk_out)) K ->
    (1 <= n)%nat ->
    (1 <= dsize)%nat ->
    (dsize - 2 <= msize)%nat ->
    (forall s : list Z, In s sk_out -> length s = n) ->
    (forall ci : nat, length (s_in ci) = n) ->
    (forall row ci : nat, length (e row ci) = n) ->
    (forall row ci : nat, length (I row ci) = n) ->
    0 <= b ->
    Z.of_nat msize * b <= P ->
    Z.of_nat dnum * Z.of_nat dsize * b <= P ->
    key_rows_ok P b n rin (S (length sk_out)) msize dsize dnum K (sk_ext n sk_out) s_in e I ->
    exists ks : cols_t,
      keyswitch_internal n (S (length sk_out)) msize res0 ct a_size dsize dnum msize K = Some ks /\
      phase_val P b n sk_out ks =
      padd
        (padd
           (padd (pval P b n (acol n ct 0) (Nat.min msize a_size))
              (psumf n (fun ci : nat => pmul (pval_used P b n a_size dsize dnum (acol n (tl ct)) ci) (s_in ci)) rin))
           (gadget_err P b n rin (S (length sk_out)) msize dsize dnum (acol n (tl ct)) K (sk_ext n sk_out) e))
        (pscale (2 ^ P) (gadget_int b n rin (S (length sk_out)) msize dsize dnum (acol n (tl ct)) K (sk_ext n sk_out) I)).
Proof. exact C03_keyswitch_internal_phase_val_lemma. Qed.
Print Assumptions C03_keyswitch_internal_phase_val.

(* (5) key-row lemma for the modelled encryption (Model/GadgetEnc.v): the value-level body equation of gglwe_encrypt_sk implies key_rows_ok, same e, I = J *)
Theorem C03_key_rows_of_enc_body :
  forall (P b : Z) (n cin rank msize dsize dnum : nat) (K : pmat) (Sk src : nat -> list Z) (e J : nat -> nat -> list Z),
    (1 <= n)%nat ->
    wf_pmat_in n (dnum * cin) (msize * S rank) K ->
    (forall co : nat, length (Sk co) = n) ->
    Sk 0%nat = pone n ->
    (forall ci : nat, length (src ci) = n) ->
    (forall row ci : nat, length (e row ci) = n) ->
    (forall row ci : nat, length (J row ci) = n) ->
    enc_body_ok P b n cin rank msize dsize dnum K Sk src e J -> key_rows_ok P b n cin (S rank) msize dsize dnum K Sk src e J.
Proof. exact key_rows_of_enc_body. Qed.
Print Assumptions C03_key_rows_of_enc_body.

(* (5) the key-switch phase theorem with the body equation of the key encryption instead of the key-row hypothesis *)
Theorem C03_keyswitch_phase_enc :
  forall (P b : Z) (n rin msize a_size dsize dnum : nat) (ct res0 : cols_t) (K : pmat) (sk_out : list (list Z)) (s_in : nat -> list Z)
      (e J : nat -> nat -> list Z),
    wf_cols n (S rin) a_size ct ->
    wf_pmat_in n (dnum * rin) (msize * S (length sk_out)) K ->
    (1 <= n)%nat ->
    (1 <= dsize)%nat ->
    (dsize - 2 <= msize)%nat ->
    (forall s : list Z, In s sk_out -> length s = n) ->
    (forall ci : nat, length (s_in ci) = n) ->
    (forall row ci : nat, length (e row ci) = n) ->
    (forall row ci : nat, length (J row ci) = n) ->
    0 <= b ->
    Z.of_nat msize * b <= P ->
    Z.of_nat dnum * Z.of_nat dsize * b <= P ->
    enc_body_ok P b n rin (length sk_out) msize dsize dnum K (sk_ext n sk_out) s_in e J ->
    exists ks : cols_t,
      keyswitch_internal n (S (length sk_out)) msize res0 ct a_size dsize dnum msize K = Some ks /\
      phase_val P b n sk_out ks =
      padd
        (padd
           (padd (pval P b n (acol n ct 0) (Nat.min msize a_size))
              (psumf n (fun ci : nat => pmul (pval_used P b n a_size dsize dnum (acol n (tl ct)) ci) (s_in ci)) rin))
           (gadget_err P b n rin (S (length sk_out)) msize dsize dnum (acol n (tl ct)) K (sk_ext n sk_out) e))
        (pscale (2 ^ P) (gadget_int b n rin (S (length sk_out)) msize dsize dnum (acol n (tl ct)) K (sk_ext n sk_out) J)).
Proof. exact C03_keyswitch_phase_enc_lemma. Qed.
Print Assumptions C03_keyswitch_phase_enc.

(* (6) one column normalisation, FFT64 family, same radix, from C08 normalize_inter_value: out = big + r + 2^P I, |r| <= one unit of the last limb *)
Theorem C03_big_normalize_value_fft64 :
  forall (b : Z) (n rsize : nat) (a : plimbs) (P : Z),
    1 <= b <= 62 ->
    (forall j : nat, (j < length a)%nat -> length (lim a j) = n) ->
    (forall j k : nat, Z.abs (nth k (lim a j) 0) <= 2 ^ 62) ->
    (Z.of_nat rsize + Z.of_nat (length a)) * b <= P -> normalize_value_ok 64 P n b b rsize a.
Proof. exact big_normalize_value_fft64. Qed.
Print Assumptions C03_big_normalize_value_fft64.

(* (6) normalising every column: phase(out) = phase(big) + R + 2^P I, |R| <= (1 + rank n S) units of the last limb *)
Theorem C03_normalize_cols_phase :
  forall (wb P : Z) (n : nat) (rb kb : Z) (res_size msize : nat) (sk : list (list Z)) (Sb : Z) (big : cols_t),
    (1 <= n)%nat ->
    wf_cols n (S (length sk)) msize big ->
    (forall s : list Z, In s sk -> length s = n) ->
    (forall s : list Z, In s sk -> pnorm s <= Sb) ->
    (forall co : nat, (co < S (length sk))%nat -> normalize_value_ok wb P n rb kb res_size (col big co)) ->
    exists (res : list plimbs) (R I : list Z),
      sequence (map (big_normalize wb n rb kb res_size) big) = Some res /\
      wf_cols n (S (length sk)) res_size res /\
      length R = n /\
      length I = n /\
      phase_val P rb n sk res = padd (padd (phase_val P kb n sk big) R) (pscale (2 ^ P) I) /\
      pnorm R <= (1 + Z.of_nat (length sk) * Z.of_nat n * Sb) * 2 ^ (P - Z.of_nat res_size * rb).
Proof. exact normalize_cols_phase. Qed.
Print Assumptions C03_normalize_cols_phase.

(* (6) Gadget.glwe_keyswitch (input radix = key radix): phase_out = phase_in + E + R + 2^P I; per-column normalize_value_ok is a hypothesis *)
Theorem C03_glwe_keyswitch_phase_final :
  forall (be P b rb : Z) (n rin msize a_size res_size dsize dnum : nat) (ct : cols_t) (K : pmat) (sk_out : list (list Z))
      (s_in : nat -> list Z) (e I : nat -> nat -> list Z) (Sb : Z),
    wf_cols n (S rin) a_size ct ->
    wf_pmat_in n (dnum * rin) (msize * S (length sk_out)) K ->
    (1 <= n)%nat ->
    (1 <= dsize)%nat ->
    (dsize - 2 <= msize)%nat ->
    (forall s : list Z, In s sk_out -> length s = n) ->
    (forall s : list Z, In s sk_out -> pnorm s <= Sb) ->
    (forall ci : nat, length (s_in ci) = n) ->
    (forall row ci : nat, length (e row ci) = n) ->
    (forall row ci : nat, length (I row ci) = n) ->
    0 <= b ->
    Z.of_nat msize * b <= P ->
    Z.of_nat dnum * Z.of_nat dsize * b <= P ->
    key_rows_ok P b n rin (S (length sk_out)) msize dsize dnum K (sk_ext n sk_out) s_in e I ->
    (forall big : cols_t,
     keyswitch_internal n (S (length sk_out)) msize (zcols n (S (length sk_out)) msize) ct a_size dsize dnum msize K = Some big ->
     forall co : nat, (co < S (length sk_out))%nat -> normalize_value_ok (wbig be) P n rb b res_size (col big co)) ->
    exists (res : cols_t) (R Itot : list Z),
      glwe_keyswitch be n b b rb (length sk_out) a_size res_size dsize dnum msize ct K = Some res /\
      wf_cols n (S (length sk_out)) res_size res /\
      length R = n /\
      length Itot = n /\
      phase_val P rb n sk_out res =
      padd
        (padd
           (padd
              (padd (pval P b n (acol n ct 0) (Nat.min msize a_size))
                 (psumf n (fun ci : nat => pmul (pval_used P b n a_size dsize dnum (acol n (tl ct)) ci) (s_in ci)) rin))
              (gadget_err P b n rin (S (length sk_out)) msize dsize dnum (acol n (tl ct)) K (sk_ext n sk_out) e)) R) (pscale (2 ^ P) Itot) /\
      pnorm R <= (1 + Z.of_nat (length sk_out) * Z.of_nat n * Sb) * 2 ^ (P - Z.of_nat res_size * rb).
Proof. exact C03_glwe_keyswitch_phase_final_lemma. Qed.
Print Assumptions C03_glwe_keyswitch_phase_final.

(* (7) the exact Galois automorphism sigmaE g (Model/GadgetDerived.v) = Poly.sigma w g on small coefficients *)
Theorem C03_sigmaE_sigma :
  forall (w g : Z) (a : list Z), 1 <= w -> (forall x : Z, In x a -> Z.abs x < 2 ^ (w - 1)) -> sigma w g a = sigmaE g a.
Proof. exact sigmaE_sigma. Qed.
Print Assumptions C03_sigmaE_sigma.

(* (7) sigma_g a (X^g) = a (X) on the exact extension, gcd g (2n) = 1 *)
Theorem C03_ext_sigmaE :
  forall (g : Z) (a : list Z) (k : Z), Z.gcd g (2 * Z.of_nat (length a)) = 1 -> (0 < length a)%nat -> ext' (sigmaE g a) (k * g) = ext' a k.
Proof. exact ext'_sigmaE. Qed.
Print Assumptions C03_ext_sigmaE.

Theorem C03_sigmaE_unique :
  forall (g : Z) (a c : list Z),
    Z.gcd g (2 * Z.of_nat (length a)) = 1 ->
    (0 < length a)%nat -> length c = length a -> (forall k : Z, ext' c (k * g) = ext' a k) -> c = sigmaE g a.
Proof. exact sigmaE_unique. Qed.
Print Assumptions C03_sigmaE_unique.

(* (7) ring-homomorphism facts, all PROVED *)
Theorem C03_sigmaE_len :
  forall (n : nat) (g : Z) (a : list Z), length a = n -> length (sigmaE g a) = n.
Proof. exact sigmaE_len. Qed.
Print Assumptions C03_sigmaE_len.

Theorem C03_sigmaE_padd :
  forall (n : nat) (g : Z),
    (0 < n)%nat ->
    Z.gcd g (2 * Z.of_nat n) = 1 -> forall a b : list Z, length a = n -> length b = n -> sigmaE g (padd a b) = padd (sigmaE g a) (sigmaE g b).
Proof. exact sigmaE_padd. Qed.
Print Assumptions C03_sigmaE_padd.

Theorem C03_sigmaE_psub :
  forall (n : nat) (g : Z),
    (0 < n)%nat ->
    Z.gcd g (2 * Z.of_nat n) = 1 -> forall a b : list Z, length a = n -> length b = n -> sigmaE g (psub a b) = psub (sigmaE g a) (sigmaE g b).
Proof. exact sigmaE_psub. Qed.
Print Assumptions C03_sigmaE_psub.

Theorem C03_sigmaE_pneg :
  forall (n : nat) (g : Z),
    (0 < n)%nat -> Z.gcd g (2 * Z.of_nat n) = 1 -> forall a : list Z, length a = n -> sigmaE g (pneg a) = pneg (sigmaE g a).
Proof. exact sigmaE_pneg. Qed.
Print Assumptions C03_sigmaE_pneg.

Theorem C03_sigmaE_pscale :
  forall (n : nat) (g : Z),
    (0 < n)%nat -> Z.gcd g (2 * Z.of_nat n) = 1 -> forall (c : Z) (a : list Z), length a = n -> sigmaE g (pscale c a) = pscale c (sigmaE g a).
Proof. exact sigmaE_pscale. Qed.
Print Assumptions C03_sigmaE_pscale.

Theorem C03_sigmaE_pmul :
  forall (n : nat) (g : Z),
    (0 < n)%nat ->
    Z.gcd g (2 * Z.of_nat n) = 1 -> forall a b : list Z, length a = n -> length b = n -> sigmaE g (pmul a b) = pmul (sigmaE g a) (sigmaE g b).
Proof. exact sigmaE_pmul. Qed.
Print Assumptions C03_sigmaE_pmul.

(* (7) the sup norm is invariant: the envelope is unchanged *)
Theorem C03_sigmaE_pnorm :
  forall (g : Z) (a : list Z), Z.gcd g (Z.of_nat (length a)) = 1 -> pnorm (sigmaE g a) = pnorm a.
Proof. exact sigmaE_pnorm. Qed.
Print Assumptions C03_sigmaE_pnorm.

Theorem C03_sigmaE_compose :
  forall a : list Z,
    (0 < length a)%nat ->
    forall g h : Z, Z.gcd g (2 * Z.of_nat (length a)) = 1 -> Z.gcd h (2 * Z.of_nat (length a)) = 1 -> sigmaE g (sigmaE h a) = sigmaE (g * h) a.
Proof. exact sigmaE_compose. Qed.
Print Assumptions C03_sigmaE_compose.

Theorem C03_sigmaE_inverse :
  forall a : list Z,
    (0 < length a)%nat ->
    forall g h : Z, Z.gcd g (2 * Z.of_nat (length a)) = 1 -> (g * h) mod (2 * Z.of_nat (length a)) = 1 -> sigmaE h (sigmaE g a) = a.
Proof. exact sigmaE_inverse. Qed.
Print Assumptions C03_sigmaE_inverse.

(* (7) C03_automorphism_phase with sg := sigmaE g: no ring-homomorphism hypothesis left *)
Theorem C03_automorphism_phase_sigma :
  forall (n : nat) (g P b : Z) (rin cols_out msize a_size dsize dnum : nat) (ct res0 : cols_t) (K : pmat) (Sk St s_in : nat -> list Z)
      (e I : nat -> nat -> list Z),
    Z.gcd g (2 * Z.of_nat n) = 1 ->
    wf_cols n (S rin) a_size ct ->
    wf_pmat_in n (dnum * rin) (msize * cols_out) K ->
    (1 <= n)%nat ->
    (1 <= cols_out)%nat ->
    (1 <= dsize)%nat ->
    (dsize - 2 <= msize)%nat ->
    (forall co : nat, length (Sk co) = n) ->
    Sk 0%nat = pone n ->
    (forall co : nat, St co = sigmaE g (Sk co)) ->
    (forall ci : nat, length (s_in ci) = n) ->
    (forall row ci : nat, length (e row ci) = n) ->
    (forall row ci : nat, length (I row ci) = n) ->
    0 <= b ->
    Z.of_nat msize * b <= P ->
    Z.of_nat dnum * Z.of_nat dsize * b <= P ->
    key_rows_ok P b n rin cols_out msize dsize dnum K Sk s_in e I ->
    exists ks : cols_t,
      keyswitch_internal n cols_out msize res0 ct a_size dsize dnum msize K = Some ks /\
      wf_cols n cols_out msize ks /\
      phase_f P b n cols_out msize (limbs_of (map (map (sigmaE g)) ks)) St =
      padd
        (padd
           (sigmaE g
              (padd (pval P b n (acol n ct 0) (Nat.min msize a_size))
                 (psumf n (fun ci : nat => pmul (pval_used P b n a_size dsize dnum (acol n (tl ct)) ci) (s_in ci)) rin)))
           (sigmaE g (gadget_err P b n rin cols_out msize dsize dnum (acol n (tl ct)) K Sk e)))
        (pscale (2 ^ P) (sigmaE g (gadget_int b n rin cols_out msize dsize dnum (acol n (tl ct)) K Sk I))) /\
      pnorm (sigmaE g (gadget_err P b n rin cols_out msize dsize dnum (acol n (tl ct)) K Sk e)) =
      pnorm (gadget_err P b n rin cols_out msize dsize dnum (acol n (tl ct)) K Sk e).
Proof. exact C03_automorphism_phase_sigma_lemma. Qed.
Print Assumptions C03_automorphism_phase_sigma.

(* (8) two gadget shapes, same s_in -> s_out, one input that fits both: same plaintext image, torus distance <= env1 + env2 *)
Theorem C03_keyswitch_shape_independent :
  forall (P b : Z) (n rin a_size : nat) (ct : cols_t) (sk_out : list (list Z)) (s_in : nat -> list Z)
      (msize1 dsize1 dnum1 msize2 dsize2 dnum2 : nat) (res01 res02 : cols_t) (K1 K2 : pmat) (e1 I1 e2 I2 : nat -> nat -> list Z) 
      (env1 env2 : Z),
    wf_cols n (S rin) a_size ct ->
    (1 <= n)%nat ->
    (forall s : list Z, In s sk_out -> length s = n) ->
    (forall ci : nat, length (s_in ci) = n) ->
    0 <= b ->
    1 <= P ->
    wf_pmat_in n (dnum1 * rin) (msize1 * S (length sk_out)) K1 ->
    (1 <= dsize1)%nat ->
    (dsize1 - 2 <= msize1)%nat ->
    (a_size <= dnum1 * dsize1)%nat ->
    (a_size <= msize1)%nat ->
    (forall row ci : nat, length (e1 row ci) = n) ->
    (forall row ci : nat, length (I1 row ci) = n) ->
    Z.of_nat msize1 * b <= P ->
    Z.of_nat dnum1 * Z.of_nat dsize1 * b <= P ->
    key_rows_ok P b n rin (S (length sk_out)) msize1 dsize1 dnum1 K1 (sk_ext n sk_out) s_in e1 I1 ->
    wf_pmat_in n (dnum2 * rin) (msize2 * S (length sk_out)) K2 ->
    (1 <= dsize2)%nat ->
    (dsize2 - 2 <= msize2)%nat ->
    (a_size <= dnum2 * dsize2)%nat ->
    (a_size <= msize2)%nat ->
    (forall row ci : nat, length (e2 row ci) = n) ->
    (forall row ci : nat, length (I2 row ci) = n) ->
    Z.of_nat msize2 * b <= P ->
    Z.of_nat dnum2 * Z.of_nat dsize2 * b <= P ->
    key_rows_ok P b n rin (S (length sk_out)) msize2 dsize2 dnum2 K2 (sk_ext n sk_out) s_in e2 I2 ->
    pnorm (gadget_err P b n rin (S (length sk_out)) msize1 dsize1 dnum1 (acol n (tl ct)) K1 (sk_ext n sk_out) e1) <= env1 ->
    pnorm (gadget_err P b n rin (S (length sk_out)) msize2 dsize2 dnum2 (acol n (tl ct)) K2 (sk_ext n sk_out) e2) <= env2 ->
    env1 + env2 < 2 ^ (P - 1) ->
    exists ks1 ks2 : cols_t,
      keyswitch_internal n (S (length sk_out)) msize1 res01 ct a_size dsize1 dnum1 msize1 K1 = Some ks1 /\
      keyswitch_internal n (S (length sk_out)) msize2 res02 ct a_size dsize2 dnum2 msize2 K2 = Some ks2 /\
      phase_val P b n sk_out ks1 =
      padd
        (padd (phase_in_full P b n rin a_size ct s_in)
           (gadget_err P b n rin (S (length sk_out)) msize1 dsize1 dnum1 (acol n (tl ct)) K1 (sk_ext n sk_out) e1))
        (pscale (2 ^ P) (gadget_int b n rin (S (length sk_out)) msize1 dsize1 dnum1 (acol n (tl ct)) K1 (sk_ext n sk_out) I1)) /\
      phase_val P b n sk_out ks2 =
      padd
        (padd (phase_in_full P b n rin a_size ct s_in)
           (gadget_err P b n rin (S (length sk_out)) msize2 dsize2 dnum2 (acol n (tl ct)) K2 (sk_ext n sk_out) e2))
        (pscale (2 ^ P) (gadget_int b n rin (S (length sk_out)) msize2 dsize2 dnum2 (acol n (tl ct)) K2 (sk_ext n sk_out) I2)) /\
      psub (phase_val P b n sk_out ks1) (phase_val P b n sk_out ks2) =
      padd
        (psub (gadget_err P b n rin (S (length sk_out)) msize1 dsize1 dnum1 (acol n (tl ct)) K1 (sk_ext n sk_out) e1)
           (gadget_err P b n rin (S (length sk_out)) msize2 dsize2 dnum2 (acol n (tl ct)) K2 (sk_ext n sk_out) e2))
        (pscale (2 ^ P)
           (psub (gadget_int b n rin (S (length sk_out)) msize1 dsize1 dnum1 (acol n (tl ct)) K1 (sk_ext n sk_out) I1)
              (gadget_int b n rin (S (length sk_out)) msize2 dsize2 dnum2 (acol n (tl ct)) K2 (sk_ext n sk_out) I2))) /\
      tor_norm P (psub (phase_val P b n sk_out ks1) (phase_val P b n sk_out ks2)) <= env1 + env2.
Proof. exact keyswitch_shape_independent. Qed.
Print Assumptions C03_keyswitch_shape_independent.

(* (8) Model/C03Run.decode of M 2^(P-kpt) + err + 2^P I is M when |err| < half a message step *)
Theorem C03_decode_correct :
  forall (P kpt : Z) (n : nat) (msg err I : list Z),
    1 <= kpt ->
    kpt < P ->
    length msg = n ->
    length err = n ->
    length I = n ->
    pnorm err < 2 ^ (P - kpt - 1) -> decode P kpt (padd (padd (pscale (2 ^ (P - kpt)) msg) err) (pscale (2 ^ P) I)) = map (wrap kpt) msg.
Proof. exact decode_correct. Qed.
Print Assumptions C03_decode_correct.

(* (8) every fitting gadget shape decodes to the encrypted message *)
Theorem C03_keyswitch_fit_decodes :
  forall (P b kpt : Z) (n rin msize a_size dsize dnum : nat) (ct res0 : cols_t) (K : pmat) (sk_out : list (list Z))
      (s_in : nat -> list Z) (e I : nat -> nat -> list Z) (msg e_in : list Z) (env : Z),
    wf_cols n (S rin) a_size ct ->
    wf_pmat_in n (dnum * rin) (msize * S (length sk_out)) K ->
    (1 <= n)%nat ->
    (1 <= dsize)%nat ->
    (dsize - 2 <= msize)%nat ->
    (a_size <= dnum * dsize)%nat ->
    (a_size <= msize)%nat ->
    (forall s : list Z, In s sk_out -> length s = n) ->
    (forall ci : nat, length (s_in ci) = n) ->
    (forall row ci : nat, length (e row ci) = n) ->
    (forall row ci : nat, length (I row ci) = n) ->
    0 <= b ->
    Z.of_nat msize * b <= P ->
    Z.of_nat dnum * Z.of_nat dsize * b <= P ->
    key_rows_ok P b n rin (S (length sk_out)) msize dsize dnum K (sk_ext n sk_out) s_in e I ->
    1 <= kpt < P ->
    length msg = n ->
    length e_in = n ->
    phase_in_full P b n rin a_size ct s_in = padd (pscale (2 ^ (P - kpt)) msg) e_in ->
    pnorm (gadget_err P b n rin (S (length sk_out)) msize dsize dnum (acol n (tl ct)) K (sk_ext n sk_out) e) <= env ->
    pnorm e_in + env < 2 ^ (P - kpt - 1) ->
    exists ks : cols_t,
      keyswitch_internal n (S (length sk_out)) msize res0 ct a_size dsize dnum msize K = Some ks /\
      decode P kpt (phase_val P b n sk_out ks) = map (wrap kpt) msg.
Proof. exact keyswitch_fit_decodes. Qed.
Print Assumptions C03_keyswitch_fit_decodes.

(* (9) sample extraction: coefficient 0 of a (x) sigma_{-1}(s) is the LWE inner product *)
Theorem C03_sample_extract_phase :
  forall (n : nat) (a s : list Z),
    (0 < n)%nat -> length a = n -> (length s <= n)%nat -> nth 0 (pmul a (sigmaE (-1) (s ++ zeros (n - length s)))) 0 = lwe_dot a s (length s).
Proof. exact sample_extract_phase. Qed.
Print Assumptions C03_sample_extract_phase.

Theorem C03_rotate_selects :
  forall (x : list Z) (idx : nat), (idx < length x)%nat -> nth 0 (monomial_mul' (- Z.of_nat idx) x) 0 = nthZ x idx.
Proof. exact rotate_selects. Qed.
Print Assumptions C03_rotate_selects.

(* (9) lwe_from_glwe(idx) = rotate by -idx, key-switch, extract *)
Theorem C03_lwe_from_glwe_phase :
  forall (P : Z) (n idx : nat) (ph_in ph_rot ph_ks E I : list Z),
    length ph_in = n ->
    (idx < n)%nat ->
    length E = n ->
    length I = n ->
    ph_rot = monomial_mul' (- Z.of_nat idx) ph_in ->
    ph_ks = padd (padd ph_rot E) (pscale (2 ^ P) I) ->
    nth 0 ph_ks 0 = nthZ ph_in idx + nth 0 E 0 + 2 ^ P * nth 0 I 0 /\ Z.abs (nth 0 E 0) <= pnorm E.
Proof. exact lwe_from_glwe_phase. Qed.
Print Assumptions C03_lwe_from_glwe_phase.

Theorem C03_glwe_from_lwe_phase :
  forall (P : Z) (n : nat) (lwe_phase : Z) (ph_emb ph_out E I : list Z),
    (0 < n)%nat ->
    length ph_emb = n ->
    length E = n ->
    length I = n ->
    nth 0 ph_emb 0 = lwe_phase ->
    ph_out = padd (padd ph_emb E) (pscale (2 ^ P) I) -> nth 0 ph_out 0 = lwe_phase + nth 0 E 0 + 2 ^ P * nth 0 I 0 /\ Z.abs (nth 0 E 0) <= pnorm E.
Proof. exact glwe_from_lwe_phase. Qed.
Print Assumptions C03_glwe_from_lwe_phase.

(* (9) packing: err' <= err_a + err_b + lvl over any merge tree of depth <= L gives 2^L e0 + (2^L - 1) lvl *)
Theorem C03_pack_error_bound :
  forall (lvl e0 : Z) (t : mtree) (x : Z) (L : nat),
    0 <= lvl -> 0 <= e0 -> mleaves_le e0 t -> (mdepth t <= L)%nat -> merge_err lvl t x -> x <= 2 ^ Z.of_nat L * e0 + (2 ^ Z.of_nat L - 1) * lvl.
Proof. exact pack_error_bound. Qed.
Print Assumptions C03_pack_error_bound.

Theorem C03_pack_error_bound_fresh :
  forall (lvl : Z) (t : mtree) (x : Z) (L : nat),
    0 <= lvl -> mleaves_le 0 t -> (mdepth t <= L)%nat -> merge_err lvl t x -> x <= (2 ^ Z.of_nat L - 1) * lvl.
Proof. exact pack_error_bound_fresh. Qed.
Print Assumptions C03_pack_error_bound_fresh.

(* (9) glwe_pack: slot s ends at coefficient s; streaming packer: the k-th input ends at coefficient bitrev(k) *)
Theorem C03_pack_slot_placement :
  forall L s : nat, (s < 2 ^ L)%nat -> pack_pos L s = (0%nat, s).
Proof. exact pack_slot_placement. Qed.
Print Assumptions C03_pack_slot_placement.

Theorem C03_packer_slot_placement :
  forall L k : nat, packer_pos L k = GadgetDerived.bitrev L k.
Proof. exact packer_slot_placement. Qed.
Print Assumptions C03_packer_slot_placement.

(* (9) AUTO(a X^t, g) = -X^t AUTO(a, g) when t g = t + n (mod 2n); one merge level of pack_internal, exactly *)
Theorem C03_sigmaE_monomial_flip :
  forall (n : nat) (g : Z),
    (0 < n)%nat ->
    Z.gcd g (2 * Z.of_nat n) = 1 ->
    forall (b : list Z) (t s : Z),
    length b = n -> t * g = t + Z.of_nat n + s * (2 * Z.of_nat n) -> sigmaE g (monomial_mul' t b) = pneg (monomial_mul' t (sigmaE g b)).
Proof. exact sigmaE_monomial_flip. Qed.
Print Assumptions C03_sigmaE_monomial_flip.

Theorem C03_pack_merge_level :
  forall (n : nat) (g : Z),
    (0 < n)%nat ->
    Z.gcd g (2 * Z.of_nat n) = 1 ->
    forall (a b : list Z) (t s : Z),
    length a = n ->
    length b = n ->
    t * g = t + Z.of_nat n + s * (2 * Z.of_nat n) ->
    padd (padd a (monomial_mul' t b)) (sigmaE g (psub a (monomial_mul' t b))) = padd (padd a (sigmaE g a)) (monomial_mul' t (padd b (sigmaE g b))).
Proof. exact pack_merge_level. Qed.
Print Assumptions C03_pack_merge_level.

(* (9) trace: per-level projection (2 x_j at the fixed positions, 0 at the negated ones) *)
Theorem C03_trace_level_coeff :
  forall (n : nat) (g : Z),
    (0 < n)%nat ->
    Z.gcd g (2 * Z.of_nat n) = 1 ->
    forall (x : list Z) (j : nat) (s : Z),
    length x = n ->
    (j < n)%nat ->
    (Z.of_nat j * g = Z.of_nat j + s * (2 * Z.of_nat n) -> nth j (padd x (sigmaE g x)) 0 = 2 * nthZ x j) /\
    (Z.of_nat j * g = Z.of_nat j + Z.of_nat n + s * (2 * Z.of_nat n) -> nth j (padd x (sigmaE g x)) 0 = 0).
Proof. exact trace_level_coeff. Qed.
Print Assumptions C03_trace_level_coeff.

(* (9) the composed levels = sum over the generated set of Galois elements *)
Theorem C03_trace_op_span :
  forall n : nat,
    (0 < n)%nat ->
    forall gs : list Z,
    Forall (unit2n n) gs -> forall x : list Z, length x = n -> trace_op gs x = psum_over n (fun h : Z => sigmaE h x) (galois_span gs).
Proof. exact trace_op_span. Qed.
Print Assumptions C03_trace_op_span.

(* (9) 2^steps phase(out) = trace_op(phase(in)) + Err + 2^P I, |Err| <= steps 2^steps (rounding + key-switch envelope) *)
Theorem C03_trace_phase :
  forall (P : Z) (n : nat) (rho eps : Z),
    (0 < n)%nat ->
    forall gs x z : list Z,
    trace_rel P n rho eps gs x z ->
    Forall (unit2n n) gs ->
    length x = n ->
    exists Err I : list Z,
      length Err = n /\
      length I = n /\
      length z = n /\
      pscale (2 ^ Z.of_nat (length gs)) z = padd (padd (trace_op gs x) Err) (pscale (2 ^ P) I) /\
      pnorm Err <= Z.of_nat (length gs) * 2 ^ Z.of_nat (length gs) * (rho + eps).
Proof. exact trace_phase_lemma. Qed.
Print Assumptions C03_trace_phase.

(* (6) ... FFT64 family, one radix: the normalisation hypothesis is discharged by C08; remaining hypothesis = |big coefficient| <= 2^62 *)
Theorem C03_glwe_keyswitch_phase_final_fft64 :
  forall (be P b : Z) (n rin msize a_size res_size dsize dnum : nat) (ct : cols_t) (K : pmat) (sk_out : list (list Z))
      (s_in : nat -> list Z) (e I : nat -> nat -> list Z) (Sb : Z),
    be <= 2 ->
    wf_cols n (S rin) a_size ct ->
    wf_pmat_in n (dnum * rin) (msize * S (length sk_out)) K ->
    (1 <= n)%nat ->
    (1 <= dsize)%nat ->
    (dsize - 2 <= msize)%nat ->
    (forall s : list Z, In s sk_out -> length s = n) ->
    (forall s : list Z, In s sk_out -> pnorm s <= Sb) ->
    (forall ci : nat, length (s_in ci) = n) ->
    (forall row ci : nat, length (e row ci) = n) ->
    (forall row ci : nat, length (I row ci) = n) ->
    1 <= b <= 62 ->
    (Z.of_nat res_size + Z.of_nat msize) * b <= P ->
    Z.of_nat dnum * Z.of_nat dsize * b <= P ->
    key_rows_ok P b n rin (S (length sk_out)) msize dsize dnum K (sk_ext n sk_out) s_in e I ->
    (forall big : cols_t,
     keyswitch_internal n (S (length sk_out)) msize (zcols n (S (length sk_out)) msize) ct a_size dsize dnum msize K = Some big ->
     forall co j k : nat, Z.abs (nth k (lim (col big co) j) 0) <= 2 ^ 62) ->
    exists (res : cols_t) (R Itot : list Z),
      glwe_keyswitch be n b b b (length sk_out) a_size res_size dsize dnum msize ct K = Some res /\
      wf_cols n (S (length sk_out)) res_size res /\
      length R = n /\
      length Itot = n /\
      phase_val P b n sk_out res =
      padd
        (padd
           (padd
              (padd (pval P b n (acol n ct 0) (Nat.min msize a_size))
                 (psumf n (fun ci : nat => pmul (pval_used P b n a_size dsize dnum (acol n (tl ct)) ci) (s_in ci)) rin))
              (gadget_err P b n rin (S (length sk_out)) msize dsize dnum (acol n (tl ct)) K (sk_ext n sk_out) e)) R) (pscale (2 ^ P) Itot) /\
      pnorm R <= (1 + Z.of_nat (length sk_out) * Z.of_nat n * Sb) * 2 ^ (P - Z.of_nat res_size * b).
Proof. exact C03_glwe_keyswitch_phase_final_fft64_lemma. Qed.
Print Assumptions C03_glwe_keyswitch_phase_final_fft64.

(* ---- the hypotheses are satisfiable: a concrete small instance (definitions ex*_ in the Proofs file), and the model run on it ---- *)
Example C03_hypotheses_satisfiable :
  wf_cols 2 2 2 ex3_ct /\ wf_pmat_in 2 (1 * 1) (2 * 2) ex3_K /\ (1 <= 2)%nat /\ (1 <= 2)%nat /\ (1 <= 2)%nat /\ (2 - 2 <= 2)%nat /\
  (forall co, length (sk_ext 2 ex3_sk co) = 2%nat) /\ sk_ext 2 ex3_sk 0 = pone 2 /\
  (forall ci, length (ex3_sin ci) = 2%nat) /\ (forall row ci, length (ex3_zero row ci) = 2%nat) /\
  0 <= 4 /\ Z.of_nat 2 * 4 <= 8 /\ Z.of_nat 1 * Z.of_nat 2 * 4 <= 8 /\
  key_rows_ok 8 4 2 1 2 2 2 1 ex3_K (sk_ext 2 ex3_sk) ex3_sin ex3_zero ex3_zero.
Proof. exact C03_hypotheses_satisfiable_lemma. Qed.

Example C03_instance_runs :
  exists ks, keyswitch_internal 2 2 2 (zcols 2 2 2) ex3_ct 2 2 1 2 ex3_K = Some ks /\
    phase_f 8 4 2 2 2 (limbs_of ks) (sk_ext 2 ex3_sk)
    = padd (padd (padd (pval 8 4 2 (acol 2 ex3_ct 0) (Nat.min 2 2))
                       (psumf 2 (fun ci => pmul (pval_used 8 4 2 2 2 1 (acol 2 (tl ex3_ct)) ci) (ex3_sin ci)) 1))
                 (gadget_err 8 4 2 1 2 2 2 1 (acol 2 (tl ex3_ct)) ex3_K (sk_ext 2 ex3_sk) ex3_zero))
           (pscale (2 ^ 8) (gadget_int 4 2 1 2 2 2 1 (acol 2 (tl ex3_ct)) ex3_K (sk_ext 2 ex3_sk) ex3_zero)).
Proof. exact C03_instance_runs_lemma. Qed.

Example C03_enc_body_satisfiable : enc_body_ok 8 4 2 1 1 2 2 1 ex3_K (sk_ext 2 ex3_sk) ex3_sin ex3_zero ex3_zero.
Proof. exact enc_body_satisfiable_lemma. Qed.

Example C03_trace_rel_satisfiable : trace_rel 8 2 0 0 [-1] [2; 4] [2; 0] /\ Forall (unit2n 2) [-1].
Proof. exact trace_rel_satisfiable_lemma. Qed.

Example C03_merge_err_satisfiable : merge_err 3 (MNode (MNode (MLeaf 0) (MLeaf 0)) (MLeaf 0)) 6 /\ mleaves_le 0 (MNode (MNode (MLeaf 0) (MLeaf 0)) (MLeaf 0)).
Proof. exact merge_err_satisfiable_lemma. Qed.

Example C03_sigma_flip_instance : Z.gcd 3 (2 * Z.of_nat 2) = 1 /\ 1 * 3 = 1 + Z.of_nat 2 + 0 * (2 * Z.of_nat 2).
Proof. exact sigma_flip_instance_lemma. Qed.

(* ------------------------------------------------------------------------------------------------------------------------ *)
(* Secret tensor (tensor key of the GGSW family): producer order = accessor order for every rank (Model/GadgetTensor.v) *)
From PV Require Import Model.GadgetTensor Proofs.GadgetTensor.

Theorem C03_tensor_at_is_prod : forall rank i j : nat, (i <= j)%nat -> tensor_at_idx rank i j = tensor_prod_idx rank i j.
Proof. exact tensor_at_is_prod. Qed.
Print Assumptions C03_tensor_at_is_prod.

Theorem C03_tensor_at_sym : forall rank i j : nat, tensor_at_idx rank i j = tensor_at_idx rank j i.
Proof. exact tensor_at_sym. Qed.
Print Assumptions C03_tensor_at_sym.

Theorem C03_tensor_prod_idx_lt : forall rank i j : nat, (i <= j)%nat -> (j < rank)%nat -> (tensor_prod_idx rank i j < tensor_pairs rank)%nat.
Proof. exact tensor_prod_idx_lt. Qed.
Print Assumptions C03_tensor_prod_idx_lt.

Theorem C03_tensor_prod_idx_inj : forall rank i j i' j' : nat,
  (i <= j)%nat -> (j < rank)%nat -> (i' <= j')%nat -> (j' < rank)%nat ->
  tensor_prod_idx rank i j = tensor_prod_idx rank i' j' -> i = i' /\ j = j'.
Proof. exact tensor_prod_idx_inj. Qed.
Print Assumptions C03_tensor_prod_idx_inj.

(* the column-major packing j (j+1)/2 + i agrees with it up to rank 2 and swaps (0,2) with (1,1) at rank 3 *)
Theorem C03_tensor_colmajor_differs_rank3 :
  (tensor_at_idx_colmajor 0 2 = tensor_prod_idx 3 1 1 /\ tensor_at_idx_colmajor 1 1 = tensor_prod_idx 3 0 2 /\
   ~ (tensor_at_idx_colmajor 0 2 = tensor_at_idx 3 0 2))%nat.
Proof. exact tensor_colmajor_differs_rank3. Qed.
Print Assumptions C03_tensor_colmajor_differs_rank3.

Example C03_tensor_loop_in_order :
  map (fun p => tensor_prod_idx 3 (fst p) (snd p)) (tensor_loop 3) = [0; 1; 2; 3; 4; 5]%nat /\ tensor_pairs 3 = 6%nat.
Proof. split; reflexivity. Qed.

