(* C12 - declared scratch size always suffices; scratch contents never matter.
   This file holds only pinned statements, `exact` proofs and Print Assumptions (plus Examples showing that the
   hypotheses are satisfiable).  run_takes (tree_Op shape) (0, tmp_bytes_Op shape): the take tree of the operation,
   run on a 64-byte aligned window of EXACTLY the declared number of bytes; the tmp_bytes_* / bytes_of functions
   are the ones GENERATED from /repo (Gen/C12TmpBytes_gen.v).  fam: 0 = FFT64 family, 1 = NTT120 family. *)
From PV Require Import Base.MachineInt Model.C12Scratch Gen.C12TmpBytes_gen Model.C12Trees
  Proofs.C12Arena Proofs.C12Hal Proofs.C12Core Proofs.C12KeySwitch Proofs.C12More Proofs.C12Conv Proofs.C12Main.
Open Scope Z_scope.

(* ------------------------------------------------------------------ the arena *)
Theorem C12_take_in_window : forall (k off len : Z) (w : window) (r : arena),
  0 <= k -> take k (off, len) = Some (w, r) ->
  snd w = k /\ fst w mod 64 = 0 /\ fst r = fst w + snd w /\ 0 <= snd r /\
  (0 < k -> off <= fst w /\ fst w + snd w <= off + len) /\
  (0 < snd r -> off <= fst r /\ fst r + snd r <= off + len).
Proof. exact take_in_window. Qed.
Print Assumptions C12_take_in_window.

Theorem C12_take_zero_outside_refuted : exists off len w r, take 0 (off, len) = Some (w, r) /\ off + len < fst w.
Proof. exact take_zero_outside_refuted. Qed.
Print Assumptions C12_take_zero_outside_refuted.

Theorem C12_max_serves_all : forall (t : tree) (off len len' : Z),
  len <= len' -> run_takes t (off, len) <> None -> run_takes t (off, len') = run_takes t (off, len).
Proof. exact max_serves_all. Qed.
Print Assumptions C12_max_serves_all.

Theorem C12_fail_kind_sound : forall (t : tree) (s : arena), fail_kind t s = 0 <-> run_takes t s <> None.
Proof. exact fail_kind_run_takes. Qed.
Print Assumptions C12_fail_kind_sound.

Theorem C12_aligned_closed_form : forall (t : tree) (off len : Z), aligned_tree t -> off mod 64 = 0 -> 0 <= len ->
  (demand t <= len -> exists ws, run_tree t (off, len) = Some (ws, (off + persist t, len - persist t))) /\
  (len < demand t -> run_tree t (off, len) = None).
Proof. exact run_aligned. Qed.
Print Assumptions C12_aligned_closed_form.

(* Scratch::split_mut (per-thread regions): its assertion available() >= n * len suffices only for aligned len *)
Theorem C12_split_mut_suffices : forall n len : Z, 0 <= n -> 0 <= len -> len mod 64 = 0 ->
  run_takes (split_mut n len) (0, n * len) <> None.
Proof. exact split_mut_suffices. Qed.
Print Assumptions C12_split_mut_suffices.
Theorem C12_split_mut_unaligned_refuted :
  exists n len, 0 <= n /\ 0 <= len /\ n * len <= avail (0, n * len) /\ run_takes (split_mut n len) (0, n * len) = None.
Proof. exact split_mut_unaligned_refuted. Qed.
Print Assumptions C12_split_mut_unaligned_refuted.

Theorem C12_align_matches : gen_DEFAULTALIGN = ALIGN.
Proof. exact align_matches. Qed.
Print Assumptions C12_align_matches.

(* ------------------------------------------------------------------ HAL operations, every n >= 0, both families *)
Theorem C12_suffices_vec_znx_normalize : forall fam n : Z, is_fam fam -> 0 <= n ->
  run_takes (t_vec_znx_normalize n) (0, hal_vec_znx_normalize_tmp_bytes fam n) <> None.
Proof. exact suffices_vec_znx_normalize. Qed.
Print Assumptions C12_suffices_vec_znx_normalize.

Theorem C12_suffices_vec_znx_rsh : forall fam n : Z, is_fam fam -> 0 <= n ->
  run_takes (t_vec_znx_rsh n) (0, hal_vec_znx_rsh_tmp_bytes fam n) <> None.
Proof. exact suffices_vec_znx_rsh. Qed.
Print Assumptions C12_suffices_vec_znx_rsh.

Theorem C12_suffices_vec_znx_lsh : forall fam n : Z, is_fam fam -> 0 <= n ->
  run_takes (t_vec_znx_lsh n) (0, hal_vec_znx_lsh_tmp_bytes fam n) <> None.
Proof. exact suffices_vec_znx_lsh. Qed.
Print Assumptions C12_suffices_vec_znx_lsh.

Theorem C12_suffices_vec_znx_rotate_assign : forall fam n : Z, is_fam fam -> 0 <= n ->
  run_takes (t_vec_znx_rotate_assign n) (0, hal_vec_znx_rotate_assign_tmp_bytes fam n) <> None.
Proof. exact suffices_vec_znx_rotate_assign. Qed.
Print Assumptions C12_suffices_vec_znx_rotate_assign.

Theorem C12_suffices_vec_znx_automorphism_assign : forall fam n : Z, is_fam fam -> 0 <= n ->
  run_takes (t_vec_znx_automorphism_assign n) (0, hal_vec_znx_automorphism_assign_tmp_bytes fam n) <> None.
Proof. exact suffices_vec_znx_automorphism_assign. Qed.
Print Assumptions C12_suffices_vec_znx_automorphism_assign.

Theorem C12_suffices_vec_znx_mul_xp_minus_one_assign : forall fam n : Z, is_fam fam -> 0 <= n ->
  run_takes (t_vec_znx_mul_xp_minus_one_assign n) (0, hal_vec_znx_mul_xp_minus_one_assign_tmp_bytes fam n) <> None.
Proof. exact suffices_vec_znx_mul_xp_minus_one_assign. Qed.
Print Assumptions C12_suffices_vec_znx_mul_xp_minus_one_assign.

Theorem C12_suffices_vec_znx_split_ring : forall fam n : Z, is_fam fam -> 0 <= n ->
  run_takes (t_vec_znx_split_ring n) (0, hal_vec_znx_split_ring_tmp_bytes fam n) <> None.
Proof. exact suffices_vec_znx_split_ring. Qed.
Print Assumptions C12_suffices_vec_znx_split_ring.

Theorem C12_suffices_vec_znx_merge_rings : forall fam n : Z, is_fam fam -> 0 <= n ->
  run_takes (t_vec_znx_merge_rings n) (0, hal_vec_znx_merge_rings_tmp_bytes fam n) <> None.
Proof. exact suffices_vec_znx_merge_rings. Qed.
Print Assumptions C12_suffices_vec_znx_merge_rings.

Theorem C12_suffices_vec_znx_big_normalize : forall fam n : Z, is_fam fam -> 0 <= n ->
  run_takes (t_big_normalize fam n) (0, hal_vec_znx_big_normalize_tmp_bytes fam n) <> None.
Proof. exact suffices_vec_znx_big_normalize. Qed.
Print Assumptions C12_suffices_vec_znx_big_normalize.

Theorem C12_suffices_vec_znx_big_automorphism_assign : forall fam n : Z, is_fam fam -> 0 <= n ->
  run_takes (t_big_automorphism_assign fam n) (0, hal_vec_znx_big_automorphism_assign_tmp_bytes fam n) <> None.
Proof. exact suffices_vec_znx_big_automorphism_assign. Qed.
Print Assumptions C12_suffices_vec_znx_big_automorphism_assign.

Theorem C12_suffices_vec_znx_idft_apply : forall fam n : Z, is_fam fam -> 0 <= n ->
  run_takes (t_idft_apply fam n) (0, hal_vec_znx_idft_apply_tmp_bytes fam n) <> None.
Proof. exact suffices_vec_znx_idft_apply. Qed.
Print Assumptions C12_suffices_vec_znx_idft_apply.

Theorem C12_suffices_vmp_prepare : forall fam n : Z, is_fam fam -> 0 <= n -> forall rows cols_in cols_out size : Z,
  run_takes (t_vmp_prepare fam n) (0, hal_vmp_prepare_tmp_bytes fam n rows cols_in cols_out size) <> None.
Proof. exact suffices_vmp_prepare. Qed.
Print Assumptions C12_suffices_vmp_prepare.

Theorem C12_suffices_vmp_apply_dft_to_dft : forall fam n : Z, is_fam fam -> 0 <= n ->
  forall res_size a_size rows cols_in cols_out size : Z, 0 <= a_size -> 0 <= rows -> 0 <= cols_in ->
  run_takes (t_vmp_apply_dft_to_dft fam a_size rows cols_in)
            (0, hal_vmp_apply_dft_to_dft_tmp_bytes fam n res_size a_size rows cols_in cols_out size) <> None.
Proof. exact suffices_vmp_apply_dft_to_dft. Qed.
Print Assumptions C12_suffices_vmp_apply_dft_to_dft.

Theorem C12_suffices_cnv_prepare_left : forall fam n : Z, is_fam fam -> 0 <= n -> forall rs a : Z, 0 <= rs -> 0 <= a ->
  run_takes (t_cnv_prepare_left fam n rs a) (0, api_cnv_prepare_left_tmp_bytes fam n rs a) <> None.
Proof. exact suffices_cnv_prepare_left. Qed.
Print Assumptions C12_suffices_cnv_prepare_left.

Theorem C12_suffices_cnv_prepare_right : forall fam n : Z, is_fam fam -> 0 <= n -> forall rs a : Z, 0 <= rs -> 0 <= a ->
  run_takes (t_cnv_prepare_right fam n rs a) (0, api_cnv_prepare_right_tmp_bytes fam n rs a) <> None.
Proof. exact suffices_cnv_prepare_right. Qed.
Print Assumptions C12_suffices_cnv_prepare_right.

Theorem C12_suffices_cnv_prepare_self : forall fam n : Z, is_fam fam -> 0 <= n -> forall rs a : Z, 0 <= rs -> 0 <= a ->
  run_takes (t_cnv_prepare_self fam n rs a) (0, api_cnv_prepare_self_tmp_bytes fam n rs a) <> None.
Proof. exact suffices_cnv_prepare_self. Qed.
Print Assumptions C12_suffices_cnv_prepare_self.

Theorem C12_suffices_cnv_apply_dft : forall fam n : Z, is_fam fam -> 0 <= n -> forall cnv_offset rs a b : Z, 0 <= rs -> 1 <= a -> 1 <= b ->
  run_takes (t_cnv_apply_dft fam rs a b) (0, api_cnv_apply_dft_tmp_bytes fam n cnv_offset rs a b) <> None.
Proof. exact suffices_cnv_apply_dft. Qed.
Print Assumptions C12_suffices_cnv_apply_dft.

Theorem C12_suffices_cnv_by_const_apply : forall fam n : Z, is_fam fam -> 0 <= n -> forall cnv_offset rs a b : Z, 0 <= rs -> 1 <= a -> 1 <= b ->
  run_takes (t_cnv_by_const_apply fam rs a b) (0, api_cnv_by_const_apply_tmp_bytes fam n cnv_offset rs a b) <> None.
Proof. exact suffices_cnv_by_const_apply. Qed.
Print Assumptions C12_suffices_cnv_by_const_apply.

Theorem C12_suffices_cnv_pairwise_apply_dft : forall fam n cnv_offset rs a b : Z,
  is_fam fam -> 0 <= n -> 0 <= rs -> 1 <= a -> 1 <= b ->
  run_takes (t_cnv_pairwise_apply_dft fam rs a b) (0, api_cnv_pairwise_apply_dft_tmp_bytes fam n rs cnv_offset a b) <> None.
Proof. exact suffices_cnv_pairwise_apply_dft. Qed.
Print Assumptions C12_suffices_cnv_pairwise_apply_dft.

(* vmp_apply_dft: two nested takes; n a power of two >= 8 (the FFT64 kernels need n >= 8 anyway) *)
Theorem C12_suffices_vmp_apply_dft : forall fam n rs a rows ci co size : Z,
  is_fam fam -> pow2 n -> 8 <= n -> 0 <= a -> 0 <= rows -> 0 <= ci ->
  run_takes (t_vmp_apply_dft fam n a rows ci) (0, halimpl_vmp_apply_dft_tmp_bytes fam n rs a rows ci co size) <> None.
Proof. exact main_vmp_apply_dft. Qed.
Print Assumptions C12_suffices_vmp_apply_dft.


(* ------------------------------------------------------------------ poulpy-core, every n >= 0 *)
Theorem C12_suffices_glwe_normalize : forall fam n : Z, is_fam fam -> 0 <= n -> forall res : infos,
  run_takes (tree_glwe_normalize fam n res) (0, glwe_normalize_tmp_bytes fam n) <> None.
Proof. exact suffices_glwe_normalize. Qed.
Print Assumptions C12_suffices_glwe_normalize.
Theorem C12_suffices_glwe_rsh : forall fam n : Z, is_fam fam -> 0 <= n -> forall res : infos,
  run_takes (tree_glwe_rsh fam n res) (0, glwe_shift_tmp_bytes fam n) <> None.
Proof. exact suffices_glwe_rsh. Qed.
Print Assumptions C12_suffices_glwe_rsh.
Theorem C12_suffices_glwe_lsh : forall fam n : Z, is_fam fam -> 0 <= n -> forall res : infos,
  run_takes (tree_glwe_lsh fam n res) (0, glwe_shift_tmp_bytes fam n) <> None.
Proof. exact suffices_glwe_lsh. Qed.
Print Assumptions C12_suffices_glwe_lsh.
Theorem C12_suffices_glwe_rotate_assign : forall fam n : Z, is_fam fam -> 0 <= n -> forall res : infos,
  run_takes (tree_glwe_rotate_assign fam n res) (0, glwe_rotate_tmp_bytes fam n) <> None.
Proof. exact suffices_glwe_rotate_assign. Qed.
Print Assumptions C12_suffices_glwe_rotate_assign.

Theorem C12_suffices_gglwe_prepare : forall fam n : Z, is_fam fam -> 0 <= n -> forall key : infos,
  run_takes (tree_gglwe_prepare fam n key) (0, gglwe_prepare_tmp_bytes fam n key) <> None.
Proof. exact suffices_gglwe_prepare. Qed.
Print Assumptions C12_suffices_gglwe_prepare.
Theorem C12_suffices_ggsw_prepare : forall fam n : Z, is_fam fam -> 0 <= n -> forall ggsw : infos,
  run_takes (tree_ggsw_prepare fam n ggsw) (0, ggsw_prepare_tmp_bytes fam n ggsw) <> None.
Proof. exact suffices_ggsw_prepare. Qed.
Print Assumptions C12_suffices_ggsw_prepare.

(* LWE: every limb count (the formula rounds the plaintext level up to the alignment since 936bfd3) *)
Theorem C12_suffices_lwe_encrypt_sk : forall fam n : Z, is_fam fam -> 0 <= n -> forall lwe : infos, 0 <= i_size lwe ->
  run_takes (tree_lwe_encrypt_sk fam n lwe) (0, lwe_encrypt_sk_tmp_bytes fam n lwe) <> None.
Proof. exact suffices_lwe_encrypt_sk. Qed.
Print Assumptions C12_suffices_lwe_encrypt_sk.
Theorem C12_suffices_lwe_decrypt : forall fam n : Z, is_fam fam -> 0 <= n -> forall lwe : infos, 0 <= i_size lwe ->
  run_takes (tree_lwe_decrypt fam n lwe) (0, lwe_decrypt_tmp_bytes fam n lwe) <> None.
Proof. exact suffices_lwe_decrypt. Qed.
Print Assumptions C12_suffices_lwe_decrypt.

(* ------------------------------------------------------------------ poulpy-core, nested takes: n a power of two >= 8 *)
Theorem C12_suffices_glwe_encrypt_sk : forall (fam n : Z) (glwe : infos),
  is_fam fam -> pow2 n -> 8 <= n -> 0 <= i_size glwe ->
  run_takes (tree_glwe_encrypt_sk fam n glwe) (0, glwe_encrypt_sk_tmp_bytes fam n glwe) <> None.
Proof. exact main_glwe_encrypt_sk. Qed.
Print Assumptions C12_suffices_glwe_encrypt_sk.
Theorem C12_suffices_glwe_encrypt_sk_small_n_refuted :
  exists fam n glwe, is_fam fam /\ pow2 n /\ 1 <= i_size glwe /\ 1 <= i_rank glwe /\
    run_takes (tree_glwe_encrypt_sk fam n glwe) (0, glwe_encrypt_sk_tmp_bytes fam n glwe) = None.
Proof. exact suffices_glwe_encrypt_sk_small_n_refuted. Qed.
Print Assumptions C12_suffices_glwe_encrypt_sk_small_n_refuted.

Theorem C12_suffices_glwe_decrypt : forall (fam n : Z) (glwe : infos),
  is_fam fam -> pow2 n -> 8 <= n -> 0 <= i_size glwe -> 0 <= i_rank glwe ->
  run_takes (tree_glwe_decrypt fam n glwe) (0, glwe_decrypt_tmp_bytes fam n glwe) <> None.
Proof. exact main_glwe_decrypt. Qed.
Print Assumptions C12_suffices_glwe_decrypt.
Theorem C12_suffices_glwe_encrypt_pk : forall (fam n : Z) (res : infos),
  is_fam fam -> pow2 n -> 8 <= n -> 0 <= i_size res -> 0 <= i_rank res ->
  run_takes (tree_glwe_encrypt_pk fam n res (i_size res)) (0, glwe_encrypt_pk_tmp_bytes fam n res) <> None.
Proof. exact main_glwe_encrypt_pk. Qed.
Print Assumptions C12_suffices_glwe_encrypt_pk.

(* key-switch family: any rank, any number of limbs, any dnum, dsize = 1 and > 1, same radix and cross-radix input *)
Theorem C12_suffices_glwe_keyswitch : forall (fam n : Z) (res a key : infos),
  is_fam fam -> pow2 n -> 8 <= n -> wf_infos res -> wf_infos a -> wf_infos key -> i_n a = n -> i_rank a = i_rank_in key ->
  run_takes (tree_glwe_keyswitch fam n res a key) (0, glwe_keyswitch_tmp_bytes fam n res a key) <> None.
Proof. exact main_glwe_keyswitch. Qed.
Print Assumptions C12_suffices_glwe_keyswitch.
Theorem C12_suffices_glwe_external_product : forall (fam n : Z) (res a ggsw : infos),
  is_fam fam -> pow2 n -> 8 <= n -> wf_infos res -> wf_infos a -> wf_infos ggsw -> i_n a = n ->
  run_takes (tree_glwe_external_product fam n res a ggsw) (0, glwe_external_product_tmp_bytes fam n res a ggsw) <> None.
Proof. exact main_glwe_external_product. Qed.
Print Assumptions C12_suffices_glwe_external_product.
Theorem C12_suffices_glwe_automorphism : forall (fam n : Z) (res a key : infos),
  is_fam fam -> pow2 n -> 8 <= n -> wf_infos res -> wf_infos a -> wf_infos key -> i_n a = n -> i_rank a = i_rank_in key ->
  run_takes (tree_glwe_automorphism fam n res a key) (0, glwe_automorphism_tmp_bytes fam n res a key) <> None.
Proof. exact main_glwe_automorphism. Qed.
Print Assumptions C12_suffices_glwe_automorphism.

Theorem C12_suffices_gglwe_keyswitch : forall (fam n : Z) (res a key : infos),
  is_fam fam -> pow2 n -> 8 <= n -> wf_infos res -> wf_infos a -> wf_infos key -> i_n a = n -> i_rank a = i_rank_in key ->
  run_takes (tree_gglwe_keyswitch fam n res a key) (0, gglwe_keyswitch_tmp_bytes fam n res a key) <> None.
Proof. exact main_gglwe_keyswitch. Qed.
Print Assumptions C12_suffices_gglwe_keyswitch.
Theorem C12_suffices_gglwe_external_product : forall (fam n : Z) (res a ggsw : infos),
  is_fam fam -> pow2 n -> 8 <= n -> wf_infos res -> wf_infos a -> wf_infos ggsw -> i_n a = n ->
  run_takes (tree_gglwe_external_product fam n res a ggsw) (0, gglwe_external_product_tmp_bytes fam n res a ggsw) <> None.
Proof. exact main_gglwe_external_product. Qed.
Print Assumptions C12_suffices_gglwe_external_product.
Theorem C12_suffices_ggsw_external_product : forall (fam n : Z) (res a ggsw : infos),
  is_fam fam -> pow2 n -> 8 <= n -> wf_infos res -> wf_infos a -> wf_infos ggsw -> i_n a = n ->
  run_takes (tree_ggsw_external_product fam n res a ggsw) (0, ggsw_external_product_tmp_bytes fam n res a ggsw) <> None.
Proof. exact main_ggsw_external_product. Qed.
Print Assumptions C12_suffices_ggsw_external_product.

Theorem C12_suffices_glwe_automorphism_add : forall (fam n : Z) (res a key : infos),
  is_fam fam -> pow2 n -> 8 <= n -> wf_infos res -> wf_infos a -> wf_infos key -> i_n a = n -> i_rank a = i_rank_in key ->
  run_takes (tree_glwe_automorphism_add fam n res a key) (0, glwe_automorphism_tmp_bytes fam n res a key) <> None.
Proof. exact main_glwe_automorphism_add. Qed.
Print Assumptions C12_suffices_glwe_automorphism_add.
Theorem C12_suffices_glwe_trace : forall (fam n : Z) (res a key : infos) (steps : Z),
  is_fam fam -> pow2 n -> 8 <= n -> wf_infos res -> wf_infos a -> wf_infos key -> i_n res = n -> i_rank res = i_rank_in key ->
  run_takes (tree_glwe_trace fam n res a key steps) (0, glwe_trace_tmp_bytes fam n res a key) <> None.
Proof. exact main_glwe_trace. Qed.
Print Assumptions C12_suffices_glwe_trace.
Theorem C12_suffices_glwe_trace_assign : forall (fam n : Z) (res key : infos) (steps : Z),
  is_fam fam -> pow2 n -> 8 <= n -> wf_infos res -> wf_infos key -> i_n res = n -> i_rank res = i_rank_in key ->
  run_takes (tree_glwe_trace_assign fam n res key steps) (0, glwe_trace_tmp_bytes fam n res res key) <> None.
Proof. exact main_glwe_trace_assign. Qed.
Print Assumptions C12_suffices_glwe_trace_assign.
Theorem C12_suffices_glwe_mul_const : forall (fam n : Z) (res a : infos) (b_len cnv_offset : Z),
  is_fam fam -> pow2 n -> 8 <= n -> wf_infos res -> wf_infos a -> 1 <= i_size a -> 1 <= b_len -> 0 <= cnv_offset ->
  (if cnv_offset <? i_base2k a then 0 else Z.max 0 (cnv_offset / i_base2k a - 1)) <= i_size a + b_len ->
  run_takes (tree_glwe_mul_const fam n res a b_len cnv_offset) (0, glwe_mul_const_tmp_bytes fam n res a b_len) <> None.
Proof. exact main_glwe_mul_const. Qed.
Print Assumptions C12_suffices_glwe_mul_const.

(* LWE <-> GLWE conversions, LWE key-switch, packing *)
Theorem C12_suffices_lwe_from_glwe : forall (fam n : Z) (lwe a key : infos),
  is_fam fam -> pow2 n -> 8 <= n -> wf_infos lwe -> wf_infos a -> wf_infos key -> i_n a = n -> i_rank a = i_rank_in key ->
  run_takes (tree_lwe_from_glwe fam n lwe a key) (0, lwe_from_glwe_tmp_bytes fam n lwe a key) <> None.
Proof. exact main_lwe_from_glwe. Qed.
Print Assumptions C12_suffices_lwe_from_glwe.
Theorem C12_suffices_lwe_keyswitch : forall (fam n : Z) (res a key : infos),
  is_fam fam -> pow2 n -> 8 <= n -> wf_infos res -> wf_infos a -> wf_infos key -> i_rank_in key = 1 ->
  run_takes (tree_lwe_keyswitch fam n res a key) (0, lwe_keyswitch_tmp_bytes fam n res a key) <> None.
Proof. exact main_lwe_keyswitch. Qed.
Print Assumptions C12_suffices_lwe_keyswitch.
(* glwe_from_lwe: every precision of the LWE (since 584fd63 the inner key-switch is sized on the temporary it acts on) *)
Theorem C12_suffices_glwe_from_lwe : forall (fam n : Z) (res lwe key : infos),
  is_fam fam -> pow2 n -> 8 <= n -> wf_infos res -> wf_infos lwe -> wf_infos key -> i_rank_in key = 1 ->
  run_takes (tree_glwe_from_lwe fam n res lwe key) (0, glwe_from_lwe_tmp_bytes fam n res lwe key) <> None.
Proof. exact main_glwe_from_lwe. Qed.
Print Assumptions C12_suffices_glwe_from_lwe.
(* glwe_pack: glwe_pack_tmp_bytes(res, key) serves inputs that have the layout of the result; for inputs of another layout
   the maximum of the public query over the two layouts serves (the call asserts the per-input requirement on entry);
   glwe_pack_tmp_bytes(res, key) alone does not: C12_suffices_glwe_pack_refuted *)
Theorem C12_suffices_glwe_pack : forall (fam n : Z) (res key : infos) (iters steps : Z),
  is_fam fam -> pow2 n -> 8 <= n -> wf_infos res -> wf_infos key -> i_n res = n -> i_rank res = i_rank_in key ->
  run_takes (tree_glwe_pack fam n res res key iters steps) (0, glwe_pack_tmp_bytes fam n res key) <> None.
Proof. exact main_glwe_pack. Qed.
Print Assumptions C12_suffices_glwe_pack.
Theorem C12_suffices_glwe_pack_inputs : forall (fam n : Z) (res a key : infos) (iters steps : Z),
  is_fam fam -> pow2 n -> 8 <= n -> wf_infos res -> wf_infos a -> wf_infos key -> i_n res = n -> i_n a = n ->
  i_rank res = i_rank_in key -> i_rank a = i_rank_in key ->
  run_takes (tree_glwe_pack fam n res a key iters steps)
            (0, Z.max (glwe_pack_tmp_bytes fam n res key) (glwe_pack_tmp_bytes fam n a key)) <> None.
Proof. exact main_glwe_pack_inputs. Qed.
Print Assumptions C12_suffices_glwe_pack_inputs.
Theorem C12_suffices_glwe_pack_refuted :
  exists fam n res a key iters steps, is_fam fam /\ pow2 n /\ 8 <= n /\ wf_infos res /\ wf_infos a /\ wf_infos key /\
    i_n res = n /\ i_n a = n /\ i_rank res = i_rank_in key /\ i_rank a = i_rank res /\ i_base2k a = i_base2k res /\ 1 <= iters /\
    run_takes (tree_glwe_pack fam n res a key iters steps) (0, glwe_pack_tmp_bytes fam n res key) = None.
Proof. exact suffices_glwe_pack_refuted. Qed.
Print Assumptions C12_suffices_glwe_pack_refuted.


(* GGSW row expansion and the operations built on it *)
Theorem C12_suffices_ggsw_from_gglwe : forall (fam n : Z) (res tsk : infos),
  is_fam fam -> pow2 n -> 8 <= n -> wf_infos res -> wf_infos tsk -> i_rank res = i_rank_in tsk ->
  run_takes (tree_ggsw_from_gglwe fam n res tsk) (0, ggsw_from_gglwe_tmp_bytes fam n res tsk) <> None.
Proof. exact main_ggsw_from_gglwe. Qed.
Print Assumptions C12_suffices_ggsw_from_gglwe.
Theorem C12_suffices_ggsw_keyswitch : forall (fam n : Z) (res a key tsk : infos),
  is_fam fam -> pow2 n -> 8 <= n -> wf_infos res -> wf_infos a -> wf_infos key -> wf_infos tsk -> i_n a = n -> i_rank a = i_rank_in key -> i_rank res = i_rank_in tsk ->
  run_takes (tree_ggsw_keyswitch fam n res a key tsk) (0, ggsw_keyswitch_tmp_bytes fam n res a key tsk) <> None.
Proof. exact main_ggsw_keyswitch. Qed.
Print Assumptions C12_suffices_ggsw_keyswitch.
Theorem C12_suffices_ggsw_automorphism : forall (fam n : Z) (res a key tsk : infos),
  is_fam fam -> pow2 n -> 8 <= n -> wf_infos res -> wf_infos a -> wf_infos key -> wf_infos tsk -> i_n a = n -> i_rank a = i_rank_in key -> i_rank res = i_rank_in tsk ->
  run_takes (tree_ggsw_automorphism fam n res a key tsk) (0, ggsw_automorphism_tmp_bytes fam n res a key tsk) <> None.
Proof. exact main_ggsw_automorphism. Qed.
Print Assumptions C12_suffices_ggsw_automorphism.

(* tensor product: relinearisation (the caller chooses tsk_size <= tsk.size()) and squaring (any cnv_offset whose limb part does not exceed 2 a.size()) *)
Theorem C12_suffices_glwe_tensor_relinearize : forall (fam n : Z) (res a tsk : infos) (tsk_size : Z),
  is_fam fam -> pow2 n -> 8 <= n -> wf_infos res -> wf_infos a -> wf_infos tsk -> 0 <= tsk_size <= i_size tsk ->
  run_takes (tree_glwe_tensor_relinearize fam n res a tsk tsk_size) (0, glwe_tensor_relinearize_tmp_bytes fam n res a tsk) <> None.
Proof. exact main_glwe_tensor_relinearize. Qed.
Print Assumptions C12_suffices_glwe_tensor_relinearize.
Theorem C12_suffices_glwe_tensor_square_apply : forall (fam n : Z) (res a : infos) (cnv_offset : Z),
  is_fam fam -> pow2 n -> 8 <= n -> wf_infos res -> wf_infos a -> 1 <= i_size a -> 0 <= cnv_offset -> cnv_offset_hi cnv_offset (i_base2k a) <= 2 * i_size a ->
  run_takes (tree_glwe_tensor_square_apply fam n res a cnv_offset) (0, glwe_tensor_square_apply_tmp_bytes fam n res a) <> None.
Proof. exact main_glwe_tensor_square_apply. Qed.
Print Assumptions C12_suffices_glwe_tensor_square_apply.

(* encryption of gadget ciphertexts and of evaluation keys *)
Theorem C12_suffices_gglwe_encrypt_sk : forall (fam n : Z) (res : infos),
  is_fam fam -> pow2 n -> 8 <= n -> wf_infos res -> i_n res = n ->
  run_takes (tree_gglwe_encrypt_sk fam n res) (0, gglwe_encrypt_sk_tmp_bytes fam n res) <> None.
Proof. exact main_gglwe_encrypt_sk. Qed.
Print Assumptions C12_suffices_gglwe_encrypt_sk.
Theorem C12_suffices_ggsw_encrypt_sk : forall (fam n : Z) (res : infos),
  is_fam fam -> pow2 n -> 8 <= n -> wf_infos res -> i_n res = n ->
  run_takes (tree_ggsw_encrypt_sk fam n res) (0, ggsw_encrypt_sk_tmp_bytes fam n res) <> None.
Proof. exact main_ggsw_encrypt_sk. Qed.
Print Assumptions C12_suffices_ggsw_encrypt_sk.
Theorem C12_suffices_glwe_switching_key_encrypt_sk : forall (fam n : Z) (res : infos),
  is_fam fam -> pow2 n -> 8 <= n -> wf_infos res -> i_n res = n ->
  run_takes (tree_glwe_switching_key_encrypt_sk fam n res) (0, glwe_switching_key_encrypt_sk_tmp_bytes fam n res) <> None.
Proof. exact main_glwe_switching_key_encrypt_sk. Qed.
Print Assumptions C12_suffices_glwe_switching_key_encrypt_sk.
Theorem C12_suffices_glwe_automorphism_key_encrypt_sk : forall (fam n : Z) (res : infos),
  is_fam fam -> pow2 n -> 8 <= n -> wf_infos res -> i_n res = n ->
  run_takes (tree_glwe_automorphism_key_encrypt_sk fam n res) (0, glwe_automorphism_key_encrypt_sk_tmp_bytes fam n res) <> None.
Proof. exact main_glwe_automorphism_key_encrypt_sk. Qed.
Print Assumptions C12_suffices_glwe_automorphism_key_encrypt_sk.
Theorem C12_suffices_lwe_switching_key_encrypt_sk : forall (fam n : Z) (res : infos),
  is_fam fam -> pow2 n -> 8 <= n -> wf_infos res -> i_n res = n ->
  run_takes (tree_lwe_switching_key_encrypt_sk fam n res) (0, lwe_switching_key_encrypt_sk_tmp_bytes fam n res) <> None.
Proof. exact main_lwe_switching_key_encrypt_sk. Qed.
Print Assumptions C12_suffices_lwe_switching_key_encrypt_sk.
Theorem C12_suffices_glwe_to_lwe_key_encrypt_sk : forall (fam n : Z) (res : infos),
  is_fam fam -> pow2 n -> 8 <= n -> wf_infos res -> i_n res = n -> 1 <= i_rank_in res ->
  run_takes (tree_glwe_to_lwe_key_encrypt_sk fam n res) (0, glwe_to_lwe_key_encrypt_sk_tmp_bytes fam n res) <> None.
Proof. exact main_glwe_to_lwe_key_encrypt_sk. Qed.
Print Assumptions C12_suffices_glwe_to_lwe_key_encrypt_sk.
Theorem C12_suffices_lwe_to_glwe_key_encrypt_sk : forall (fam n : Z) (res : infos),
  is_fam fam -> pow2 n -> 8 <= n -> wf_infos res -> i_n res = n -> 1 <= i_rank_in res ->
  run_takes (tree_lwe_to_glwe_key_encrypt_sk fam n res) (0, lwe_to_glwe_key_encrypt_sk_tmp_bytes fam n res) <> None.
Proof. exact main_lwe_to_glwe_key_encrypt_sk. Qed.
Print Assumptions C12_suffices_lwe_to_glwe_key_encrypt_sk.
Theorem C12_suffices_glwe_tensor_key_encrypt_sk : forall (fam n : Z) (res : infos),
  is_fam fam -> pow2 n -> 8 <= n -> wf_infos res -> i_n res = n ->
  run_takes (tree_glwe_tensor_key_encrypt_sk fam n res) (0, glwe_tensor_key_encrypt_sk_tmp_bytes fam n res) <> None.
Proof. exact main_glwe_tensor_key_encrypt_sk. Qed.
Print Assumptions C12_suffices_glwe_tensor_key_encrypt_sk.
Theorem C12_suffices_gglwe_to_ggsw_key_encrypt_sk : forall (fam n : Z) (res : infos),
  is_fam fam -> pow2 n -> 8 <= n -> wf_infos res -> i_n res = n ->
  run_takes (tree_gglwe_to_ggsw_key_encrypt_sk fam n res) (0, gglwe_to_ggsw_key_encrypt_sk_tmp_bytes fam n res) <> None.
Proof. exact main_gglwe_to_ggsw_key_encrypt_sk. Qed.
Print Assumptions C12_suffices_gglwe_to_ggsw_key_encrypt_sk.

(* the seeded ("compressed") encryptions *)
Theorem C12_suffices_glwe_compressed_encrypt_sk : forall (fam n : Z) (res : infos),
  is_fam fam -> pow2 n -> 8 <= n -> 0 <= i_size res ->
  run_takes (tree_glwe_compressed_encrypt_sk fam n res) (0, glwe_compressed_encrypt_sk_tmp_bytes fam n res) <> None.
Proof. exact main_glwe_compressed_encrypt_sk. Qed.
Print Assumptions C12_suffices_glwe_compressed_encrypt_sk.
Theorem C12_suffices_gglwe_compressed_encrypt_sk : forall (fam n : Z) (res : infos),
  is_fam fam -> pow2 n -> 8 <= n -> wf_infos res -> i_n res = n ->
  run_takes (tree_gglwe_compressed_encrypt_sk fam n res) (0, gglwe_compressed_encrypt_sk_tmp_bytes fam n res) <> None.
Proof. exact main_gglwe_compressed_encrypt_sk. Qed.
Print Assumptions C12_suffices_gglwe_compressed_encrypt_sk.
Theorem C12_suffices_ggsw_compressed_encrypt_sk : forall (fam n : Z) (res : infos),
  is_fam fam -> pow2 n -> 8 <= n -> wf_infos res -> i_n res = n ->
  run_takes (tree_ggsw_compressed_encrypt_sk fam n res) (0, ggsw_compressed_encrypt_sk_tmp_bytes fam n res) <> None.
Proof. exact main_ggsw_compressed_encrypt_sk. Qed.
Print Assumptions C12_suffices_ggsw_compressed_encrypt_sk.
Theorem C12_suffices_glwe_switching_key_compressed_encrypt_sk : forall (fam n : Z) (res : infos),
  is_fam fam -> pow2 n -> 8 <= n -> wf_infos res -> i_n res = n ->
  run_takes (tree_glwe_switching_key_compressed_encrypt_sk fam n res) (0, glwe_switching_key_compressed_encrypt_sk_tmp_bytes fam n res) <> None.
Proof. exact main_glwe_switching_key_compressed_encrypt_sk. Qed.
Print Assumptions C12_suffices_glwe_switching_key_compressed_encrypt_sk.
Theorem C12_suffices_glwe_automorphism_key_compressed_encrypt_sk : forall (fam n : Z) (res : infos),
  is_fam fam -> pow2 n -> 8 <= n -> wf_infos res -> i_n res = n ->
  run_takes (tree_glwe_automorphism_key_compressed_encrypt_sk fam n res) (0, glwe_automorphism_key_compressed_encrypt_sk_tmp_bytes fam n res) <> None.
Proof. exact main_glwe_automorphism_key_compressed_encrypt_sk. Qed.
Print Assumptions C12_suffices_glwe_automorphism_key_compressed_encrypt_sk.
Theorem C12_suffices_glwe_tensor_key_compressed_encrypt_sk : forall (fam n : Z) (res : infos),
  is_fam fam -> pow2 n -> 8 <= n -> wf_infos res -> i_n res = n ->
  run_takes (tree_glwe_tensor_key_compressed_encrypt_sk fam n res) (0, glwe_tensor_key_compressed_encrypt_sk_tmp_bytes fam n res) <> None.
Proof. exact main_glwe_tensor_key_compressed_encrypt_sk. Qed.
Print Assumptions C12_suffices_glwe_tensor_key_compressed_encrypt_sk.
Theorem C12_suffices_gglwe_to_ggsw_key_compressed_encrypt_sk : forall (fam n : Z) (res : infos),
  is_fam fam -> pow2 n -> 8 <= n -> wf_infos res -> i_n res = n ->
  run_takes (tree_gglwe_to_ggsw_key_compressed_encrypt_sk fam n res) (0, gglwe_to_ggsw_key_compressed_encrypt_sk_tmp_bytes fam n res) <> None.
Proof. exact main_gglwe_to_ggsw_key_compressed_encrypt_sk. Qed.
Print Assumptions C12_suffices_gglwe_to_ggsw_key_compressed_encrypt_sk.

(* poulpy-bin-fhe cmux family (size query repaired by 3f00261): cmux / cmux_assign run the product on res, cmux_assign_neg on a
   temporary taken from the scratch *)
Theorem C12_suffices_cmux : forall (fam n : Z) (res a s : infos),
  is_fam fam -> pow2 n -> 8 <= n -> wf_infos res -> wf_infos a -> wf_infos s -> i_n res = n -> i_base2k res = i_base2k s -> i_rank res = i_rank s ->
  run_takes (tree_cmux fam n res s) (0, cmux_tmp_bytes fam n res a s) <> None.
Proof. exact main_cmux. Qed.
Print Assumptions C12_suffices_cmux.
Theorem C12_suffices_cmux_assign_neg : forall (fam n : Z) (res a s : infos),
  is_fam fam -> pow2 n -> 8 <= n -> wf_infos res -> wf_infos a -> wf_infos s -> i_n res = n -> i_base2k res = i_base2k s -> i_rank res = i_rank s ->
  run_takes (tree_cmux_assign_neg fam n res a s) (0, cmux_tmp_bytes fam n res a s) <> None.
Proof. exact main_cmux_assign_neg. Qed.
Print Assumptions C12_suffices_cmux_assign_neg.

(* poulpy-bin-fhe two-word BDD operations (FheUint add / sub / shifts / comparisons / and / or / xor) through the multi-thread entry
   point, EVERY thread count: the query reserves threads x per-thread arenas, which is what the executor asserts and carves with
   Scratch::split_mut (the per-thread size is a multiple of the alignment); the regions start at aligned addresses and have exactly
   the per-thread size (C12_split_windows), and each worker's level evaluation fits into such a region (C12_suffices_bdd_eval_level) *)
Theorem C12_suffices_bdd_2w_to_1w_multi_thread : forall (fam n : Z) (res s key : infos) (bits threads state_size : Z),
  is_fam fam -> pow2 n -> 8 <= n -> wf_infos res -> wf_infos s -> wf_infos key -> i_n res = n -> i_base2k res = i_base2k s -> i_rank res = i_rank s ->
  i_rank res = i_rank_in key -> 0 <= bits -> 0 <= threads -> 0 <= state_size ->
  run_takes (tree_bdd_2w_to_1w_multi_thread fam n bits threads state_size res s key)
            (0, execute_bdd_circuit_2w_to_1w_multi_thread_tmp_bytes fam n bits threads state_size res s key) <> None.
Proof. exact main_bdd_2w_to_1w_multi_thread. Qed.
Print Assumptions C12_suffices_bdd_2w_to_1w_multi_thread.
Theorem C12_suffices_bdd_eval_level : forall (fam n : Z) (res s : infos) (state_size nodes off : Z),
  is_fam fam -> pow2 n -> 8 <= n -> wf_infos res -> wf_infos s -> i_n res = n -> i_base2k res = i_base2k s -> i_rank res = i_rank s -> 0 <= state_size ->
  off mod 64 = 0 ->
  run_tree (tree_bdd_eval_level fam n state_size nodes res s) (off, execute_bdd_circuit_tmp_bytes fam n res state_size s) <> None.
Proof. exact main_bdd_eval_level. Qed.
Print Assumptions C12_suffices_bdd_eval_level.
Theorem C12_split_windows : forall (len : Z) (k : nat), 0 <= len -> len mod 64 = 0 -> forall off L ws r,
  off mod 64 = 0 -> 0 <= L -> run_tree (rep k (Take len)) (off, L) = Some (ws, r) ->
  Forall (fun w : window => fst w mod 64 = 0 /\ snd w = len) ws.
Proof. exact main_split_windows. Qed.
Print Assumptions C12_split_windows.

(* ------------------------------------------------------------------ max_serves_all instantiated: the ONE buffer the crate's own
   test helpers allocate for several operations (sizes combined with `|`, which dominates the maximum, or with .max) serves
   each of them *)
(* test_suite/keyswitch/glwe_ct.rs: switching-key encryption | ciphertext encryption | key-switch *)
Theorem C12_max_serves_keyswitch_glwe : forall (fam n : Z) (ksk gin gout : infos),
  is_fam fam -> pow2 n -> 8 <= n -> wf_infos ksk -> wf_infos gin -> wf_infos gout -> i_n ksk = n -> i_n gin = n -> i_rank gin = i_rank_in ksk ->
  let B := Z.lor (Z.lor (glwe_switching_key_encrypt_sk_tmp_bytes fam n ksk) (glwe_encrypt_sk_tmp_bytes fam n gin)) (glwe_keyswitch_tmp_bytes fam n gout gin ksk) in
  run_takes (tree_glwe_switching_key_encrypt_sk fam n ksk) (0, B) <> None /\
  run_takes (tree_glwe_encrypt_sk fam n gin) (0, B) <> None /\
  run_takes (tree_glwe_keyswitch fam n gout gin ksk) (0, B) <> None.
Proof. exact main_helper_keyswitch_glwe. Qed.
Print Assumptions C12_max_serves_keyswitch_glwe.
(* test_suite/external_product/glwe_ct.rs: GGSW encryption | ciphertext encryption | external product *)
Theorem C12_max_serves_external_product_glwe : forall (fam n : Z) (ggsw gin gout : infos),
  is_fam fam -> pow2 n -> 8 <= n -> wf_infos ggsw -> wf_infos gin -> wf_infos gout -> i_n ggsw = n -> i_n gin = n ->
  let B := Z.lor (Z.lor (ggsw_encrypt_sk_tmp_bytes fam n ggsw) (glwe_encrypt_sk_tmp_bytes fam n gin)) (glwe_external_product_tmp_bytes fam n gout gin ggsw) in
  run_takes (tree_ggsw_encrypt_sk fam n ggsw) (0, B) <> None /\
  run_takes (tree_glwe_encrypt_sk fam n gin) (0, B) <> None /\
  run_takes (tree_glwe_external_product fam n gout gin ggsw) (0, B) <> None.
Proof. exact main_helper_external_product_glwe. Qed.
Print Assumptions C12_max_serves_external_product_glwe.
(* test_suite/automorphism/ggsw_ct.rs: GGSW encryption | automorphism-key encryption | tensor-switching-key encryption | GGSW automorphism *)
Theorem C12_max_serves_automorphism_ggsw : forall (fam n : Z) (cin cout key tsk : infos),
  is_fam fam -> pow2 n -> 8 <= n -> wf_infos cin -> wf_infos cout -> wf_infos key -> wf_infos tsk -> i_n cin = n -> i_n key = n -> i_n tsk = n ->
  i_rank cin = i_rank_in key -> i_rank cout = i_rank_in tsk ->
  let B := Z.lor (Z.lor (Z.lor (ggsw_encrypt_sk_tmp_bytes fam n cin) (glwe_automorphism_key_encrypt_sk_tmp_bytes fam n key))
                        (gglwe_to_ggsw_key_encrypt_sk_tmp_bytes fam n tsk))
                 (ggsw_automorphism_tmp_bytes fam n cout cin key tsk) in
  run_takes (tree_ggsw_encrypt_sk fam n cin) (0, B) <> None /\
  run_takes (tree_glwe_automorphism_key_encrypt_sk fam n key) (0, B) <> None /\
  run_takes (tree_gglwe_to_ggsw_key_encrypt_sk fam n tsk) (0, B) <> None /\
  run_takes (tree_ggsw_automorphism fam n cout cin key tsk) (0, B) <> None.
Proof. exact main_helper_automorphism_ggsw. Qed.
Print Assumptions C12_max_serves_automorphism_ggsw.
(* test_suite/trace.rs: encryption | decryption | automorphism-key encryption | trace *)
Theorem C12_max_serves_trace : forall (fam n : Z) (g key : infos) (steps : Z),
  is_fam fam -> pow2 n -> 8 <= n -> wf_infos g -> wf_infos key -> i_n g = n -> i_n key = n -> i_rank g = i_rank_in key ->
  let B := Z.lor (Z.lor (Z.lor (glwe_encrypt_sk_tmp_bytes fam n g) (glwe_decrypt_tmp_bytes fam n g))
                        (glwe_automorphism_key_encrypt_sk_tmp_bytes fam n key))
                 (glwe_trace_tmp_bytes fam n g g key) in
  run_takes (tree_glwe_encrypt_sk fam n g) (0, B) <> None /\
  run_takes (tree_glwe_decrypt fam n g) (0, B) <> None /\
  run_takes (tree_glwe_automorphism_key_encrypt_sk fam n key) (0, B) <> None /\
  run_takes (tree_glwe_trace fam n g g key steps) (0, B) <> None.
Proof. exact main_helper_trace. Qed.
Print Assumptions C12_max_serves_trace.
(* test_suite/glwe_packing.rs: encryption .max automorphism-key encryption .max packing *)
Theorem C12_max_serves_packing : forall (fam n : Z) (g key : infos) (iters steps : Z),
  is_fam fam -> pow2 n -> 8 <= n -> wf_infos g -> wf_infos key -> i_n g = n -> i_n key = n -> i_rank g = i_rank_in key ->
  let B := Z.max (Z.max (glwe_encrypt_sk_tmp_bytes fam n g) (glwe_automorphism_key_encrypt_sk_tmp_bytes fam n key)) (glwe_pack_tmp_bytes fam n g key) in
  run_takes (tree_glwe_encrypt_sk fam n g) (0, B) <> None /\
  run_takes (tree_glwe_automorphism_key_encrypt_sk fam n key) (0, B) <> None /\
  run_takes (tree_glwe_pack fam n g g key iters steps) (0, B) <> None.
Proof. exact main_helper_packing. Qed.
Print Assumptions C12_max_serves_packing.
(* test_suite/keyswitch/lwe_ct.rs: LWE switching-key encryption | LWE key-switch *)
Theorem C12_max_serves_keyswitch_lwe : forall (fam n : Z) (key lin lout : infos),
  is_fam fam -> pow2 n -> 8 <= n -> wf_infos key -> wf_infos lin -> wf_infos lout -> i_n key = n -> i_rank_in key = 1 ->
  let B := Z.lor (lwe_switching_key_encrypt_sk_tmp_bytes fam n key) (lwe_keyswitch_tmp_bytes fam n lout lin key) in
  run_takes (tree_lwe_switching_key_encrypt_sk fam n key) (0, B) <> None /\
  run_takes (tree_lwe_keyswitch fam n lout lin key) (0, B) <> None.
Proof. exact main_helper_keyswitch_lwe. Qed.
Print Assumptions C12_max_serves_keyswitch_lwe.

(* ------------------------------------------------------------------ the hypotheses are satisfiable *)
Example C12_ex_pow2 : pow2 1024 /\ 8 <= 1024.
Proof. split; [exists 10; split; [lia|reflexivity] | lia]. Qed.
Example C12_ex_wf : wf_infos (mkInfos 1024 17 4 2 2 3 2).
Proof. unfold wf_infos; cbn; lia. Qed.
(* a cross-radix, dsize = 2, rank 2 key-switch at n = 1024: trace and peak of the run on the exact window *)
Example C12_ex_keyswitch :
  let res := mkInfos 1024 16 3 2 2 0 1 in let a := mkInfos 1024 15 4 2 2 0 1 in let key := mkInfos 1024 17 5 2 2 2 2 in
  exists ws peak, run_takes (tree_glwe_keyswitch 0 1024 res a key) (0, glwe_keyswitch_tmp_bytes 0 1024 res a key) = Some (ws, peak)
                  /\ peak <= glwe_keyswitch_tmp_bytes 0 1024 res a key /\ length ws = 13%nat.
Proof. eexists; eexists. split; [vm_compute; reflexivity | split; [vm_compute; discriminate | reflexivity]]. Qed.
