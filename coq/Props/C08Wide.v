(* C08 (wide) — the value theorems of the limb normalisation at every word width (i64 and i128 accumulators)
   and for the cross-radix routine with negative offsets.
   This file holds only pinned statements, `exact` proofs, Print Assumptions and Examples. *)
From PV Require Import Base.MachineInt Model.Znx Model.Limbs Model.LimbsBig Model.C08Oracle Proofs.ZnxDigit
  Proofs.C08Steps Proofs.C08Chain Proofs.C08Loops Proofs.C08Value Proofs.C08Normalize
  Proofs.C08WChain Proofs.C08WLoops Proofs.C08WNormalize.
Open Scope Z_scope.

(* ---------------- the carry through a gap of zero limbs, any cap ---------------- *)
(* a carry within 2^e propagated through zero limbs is stationary after `cap` steps as soon as (cap - 1) b >= e *)
Theorem C08_wide_gap_saturates : forall b : Z, 1 <= b -> forall (cap : nat) (e c : Z) (g : nat),
  0 <= e -> Z.abs c <= 2 ^ e -> e <= (zn cap - 1) * b \/ (g <= cap)%nat ->
  car b zseq c (Nat.min g cap) = car b zseq c g.
Proof. exact car_zseq_sat_w. Qed.
Print Assumptions C08_wide_gap_saturates.

(* ---------------- same-radix normalisation, any width, any gap cap (per coefficient) ---------------- *)
(* `LimbsBig.normalize_inter_c w cap` is vec_znx_normalize_inter_base2k on w-bit accumulators whose carry
   propagation through the limbs missing between a and res is capped at `cap` steps (64 in the i64 routines,
   128 in the i128 copy of the NTT120 family); headroom |a_i| <= 2^(w-2), radix 1 <= b <= w - 2.
   Side condition on the cap: (cap - 1) b >= w - 2 (then `cap` steps saturate every carry), or the gap
   -(off / b) - |res| is at most cap. *)

Theorem C08_wide_normalize_inter_c_nth : forall w b : Z, 1 <= b <= w - 2 -> forall (cap : nat) (off : Z) (a r0 : list Z),
  hrlw w a ->
  w - 2 <= (zn cap - 1) * b \/ - (off / b) - zn (length r0) <= zn cap ->
  let out := normalize_inter_c w cap b off a r0 in
  length out = length r0 /\
  forall i, (i < length r0)%nat ->
    nthZ out i = dgz b (vin a (off mod b)) (zn (length a) - off / b - 1 - zn i).
Proof. exact normalize_inter_c_nth. Qed.
Print Assumptions C08_wide_normalize_inter_c_nth.

Theorem C08_wide_normalize_inter_c_value : forall w b : Z, 1 <= b <= w - 2 -> forall (cap : nat) (off : Z) (a r0 : list Z),
  Forall (fun x => Z.abs x <= 2 ^ (w - 2)) a ->
  w - 2 <= (zn cap - 1) * b \/ - (off / b) - zn (length r0) <= zn cap ->
  let out := normalize_inter_c w cap b off a r0 in
  length out = length r0 /\
  Forall (in_range b) out /\
  out = normalize_inter_c w cap b off a (zeros (length r0)) /\
  forall P, zn (length r0) * b + zn (length a) * b + Z.abs off <= P ->
    let D := tor_abs P (val_scaled P b out - val_scaled (P + off) b a) in
    D <= 2 ^ (P - zn (length r0) * b) /\
    (zn (length a) * b - off <= zn (length r0) * b -> D = 0).
Proof. exact normalize_inter_c_value. Qed.
Print Assumptions C08_wide_normalize_inter_c_value.

(* the i64 routine is the instance cap = 64 *)
Theorem C08_wide_normalize_inter_is_cap64 : forall (w b off : Z) (a r0 : list Z),
  normalize_inter w b off a r0 = normalize_inter_c w 64 b off a r0.
Proof. exact normalize_inter_c_64. Qed.
Print Assumptions C08_wide_normalize_inter_is_cap64.

(* `Limbs.normalize_inter w` (cap 64) at any width with w - 2 <= 63 b (every radix when w <= 65; b >= 2 when w = 128) *)
Theorem C08_wide_normalize_inter_value_w : forall (w b off : Z) (a r0 : list Z), 1 <= b <= w - 2 ->
  w - 2 <= 63 * b \/ - (off / b) - zn (length r0) <= 64 ->
  Forall (fun x => Z.abs x <= 2 ^ (w - 2)) a ->
  let out := normalize_inter w b off a r0 in
  length out = length r0 /\
  Forall (in_range b) out /\
  out = normalize_inter w b off a (zeros (length r0)) /\
  forall P, zn (length r0) * b + zn (length a) * b + Z.abs off <= P ->
    let D := tor_abs P (val_scaled P b out - val_scaled (P + off) b a) in
    D <= 2 ^ (P - zn (length r0) * b) /\
    (zn (length a) * b - off <= zn (length r0) * b -> D = 0).
Proof. exact normalize_inter_value_w. Qed.
Print Assumptions C08_wide_normalize_inter_value_w.

(* w = 64: the theorem C08_normalize_inter_value is this instance *)
Theorem C08_wide_normalize_inter_value_64 : forall (b off : Z) (a r0 : list Z), 1 <= b <= 62 ->
  Forall (fun x => Z.abs x <= 2 ^ 62) a ->
  let out := normalize_inter 64 b off a r0 in
  length out = length r0 /\
  Forall (in_range b) out /\
  out = normalize_inter 64 b off a (zeros (length r0)) /\
  forall P, zn (length r0) * b + zn (length a) * b + Z.abs off <= P ->
    let D := tor_abs P (val_scaled P b out - val_scaled (P + off) b a) in
    D <= 2 ^ (P - zn (length r0) * b) /\
    (zn (length a) * b - off <= zn (length r0) * b -> D = 0).
Proof. exact normalize_inter_value_64. Qed.
Print Assumptions C08_wide_normalize_inter_value_64.

(* the i128 routine of the NTT120 family (width 128, cap 128): every radix 1..126, every offset, no side condition *)
Theorem C08_wide_normalize_inter_value_128 : forall (b off : Z) (a r0 : list Z), 1 <= b <= 126 ->
  Forall (fun x => Z.abs x <= 2 ^ 126) a ->
  let out := normalize_inter_c 128 128 b off a r0 in
  length out = length r0 /\
  Forall (in_range b) out /\
  out = normalize_inter_c 128 128 b off a (zeros (length r0)) /\
  forall P, zn (length r0) * b + zn (length a) * b + Z.abs off <= P ->
    let D := tor_abs P (val_scaled P b out - val_scaled (P + off) b a) in
    D <= 2 ^ (P - zn (length r0) * b) /\
    (zn (length a) * b - off <= zn (length r0) * b -> D = 0).
Proof. exact normalize_inter_value_128. Qed.
Print Assumptions C08_wide_normalize_inter_value_128.

Example C08_wide_normalize_inter_value_128_ex :
  let a := [2 ^ 126; -5; 123456789012; - 2 ^ 126] in
  let out := normalize_inter_c 128 128 12 (-17) a [7; 7] in
  tor_abs 100 (val_scaled 100 12 out - val_scaled (100 + -17) 12 a) <= 2 ^ (100 - 2 * 12).
Proof.
  intros a out.
  destruct (C08_wide_normalize_inter_value_128 12 (-17) a [7; 7]) as (_ & _ & _ & HV).
  - lia.
  - repeat constructor; cbn; lia.
  - apply (HV 100). cbn. lia.
Qed.

(* the corner that separates the caps: radix 1, a carry of 2^69 crossing 68 missing limbs.  With cap 128 the
   result is exact; 64 steps (the i64 routine's cap applied to i128 words) would lose it. *)
Example C08_wide_cap_corner :
  normalize_inter_c 128 128 1 (-72) [2 ^ 70] [0; 0; 0; 0] = [-1; -1; -1; 0] /\
  tor_abs 100 (val_scaled 100 1 [-1; -1; -1; 0] - val_scaled (100 + -72) 1 [2 ^ 70]) = 0 /\
  normalize_inter_c 128 64 1 (-72) [2 ^ 70] [0; 0; 0; 0] = [0; 0; 0; 0] /\
  tor_abs 100 (val_scaled 100 1 [0; 0; 0; 0] - val_scaled (100 + -72) 1 [2 ^ 70]) = 2 * 2 ^ (100 - 4 * 1).
Proof. vm_compute. repeat split; reflexivity. Qed.

(* the dispatcher of the NTT120 big-accumulator normaliser on equal radices *)
Theorem C08_wide_normalize_big_same_value : forall (b off : Z) (a r0 : list Z), 1 <= b <= 126 ->
  Forall (fun x => Z.abs x <= 2 ^ 126) a ->
  exists out, normalize_big 128 b b off a r0 = Some out /\
  length out = length r0 /\
  Forall (in_range b) out /\
  normalize_big 128 b b off a (zeros (length r0)) = Some out /\
  forall P, zn (length r0) * b + zn (length a) * b + Z.abs off <= P ->
    let D := tor_abs P (val_scaled P b out - val_scaled (P + off) b a) in
    D <= 2 ^ (P - zn (length r0) * b) /\
    (zn (length a) * b - off <= zn (length r0) * b -> D = 0).
Proof. exact normalize_big_same_value. Qed.
Print Assumptions C08_wide_normalize_big_same_value.
