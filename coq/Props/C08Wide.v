(* C08 (wide) — the value theorems of the limb normalisation at every word width (i64 and i128 accumulators)
   and for the cross-radix routine with negative offsets.
   This file holds only pinned statements, `exact` proofs, Print Assumptions and Examples. *)
From PV Require Import Base.MachineInt Model.Znx Model.Limbs Model.LimbsBig Model.C08Oracle Proofs.ZnxDigit
  Proofs.C08Steps Proofs.C08Chain Proofs.C08Loops Proofs.C08Value Proofs.C08Normalize Proofs.C08ShiftValue
  Proofs.C08WChain Proofs.C08WLoops Proofs.C08WNormalize Proofs.C08WShiftValue Proofs.C08WRshValue Proofs.C08WCrossTheorem
  Proofs.C08CrossNegKernels Proofs.C08CrossNegTheorem Proofs.C08CrossNegCoeffOk.
Open Scope Z_scope.

(* ---------------- the carry through a gap of zero limbs, any cap ---------------- *)
(* a carry within 2^e propagated through zero limbs is stationary after `cap` steps as soon as (cap - 1) b >= e *)
Theorem C08_wide_gap_saturates : forall b : Z, 1 <= b -> forall (cap : nat) (e c : Z) (g : nat),
  0 <= e -> Z.abs c <= 2 ^ e -> e <= (zn cap - 1) * b \/ (g <= cap)%nat ->
  car b zseq c (Nat.min g cap) = car b zseq c g.
Proof. exact car_zseq_sat_w. Qed.
Print Assumptions C08_wide_gap_saturates.

(* ---------------- same-radix normalisation, any width, any gap cap (per coefficient) ---------------- *)
(* `LimbsBig.normalize_inter_c w cap` is vec_znx_normalize_inter_base2k on w-bit accumulators whose carry
   propagation through the limbs missing between a and res is capped at `cap` steps (64 in the i64 routines,
   128 in the i128 copy of the NTT120 family); headroom |a_i| <= 2^(w-2), radix 1 <= b <= w - 2.
   Side condition on the cap: (cap - 1) b >= w - 2 (then `cap` steps saturate every carry), or the gap
   -(off / b) - |res| is at most cap. *)

Theorem C08_wide_normalize_inter_c_nth : forall w b : Z, 1 <= b <= w - 2 -> forall (cap : nat) (off : Z) (a r0 : list Z),
  hrlw w a ->
  w - 2 <= (zn cap - 1) * b \/ - (off / b) - zn (length r0) <= zn cap ->
  let out := normalize_inter_c w cap b off a r0 in
  length out = length r0 /\
  forall i, (i < length r0)%nat ->
    nthZ out i = dgz b (vin a (off mod b)) (zn (length a) - off / b - 1 - zn i).
Proof. exact normalize_inter_c_nth. Qed.
Print Assumptions C08_wide_normalize_inter_c_nth.

Theorem C08_wide_normalize_inter_c_value : forall w b : Z, 1 <= b <= w - 2 -> forall (cap : nat) (off : Z) (a r0 : list Z),
  Forall (fun x => Z.abs x <= 2 ^ (w - 2)) a ->
  w - 2 <= (zn cap - 1) * b \/ - (off / b) - zn (length r0) <= zn cap ->
  let out := normalize_inter_c w cap b off a r0 in
  length out = length r0 /\
  Forall (in_range b) out /\
  out = normalize_inter_c w cap b off a (zeros (length r0)) /\
  forall P, zn (length r0) * b + zn (length a) * b + Z.abs off <= P ->
    let D := tor_abs P (val_scaled P b out - val_scaled (P + off) b a) in
    D <= 2 ^ (P - zn (length r0) * b) /\
    (zn (length a) * b - off <= zn (length r0) * b -> D = 0).
Proof. exact normalize_inter_c_value. Qed.
Print Assumptions C08_wide_normalize_inter_c_value.

(* the i64 routine is the instance cap = 64 *)
Theorem C08_wide_normalize_inter_is_cap64 : forall (w b off : Z) (a r0 : list Z),
  normalize_inter w b off a r0 = normalize_inter_c w 64 b off a r0.
Proof. exact normalize_inter_c_64. Qed.
Print Assumptions C08_wide_normalize_inter_is_cap64.

(* `Limbs.normalize_inter w` (cap 64) at any width with w - 2 <= 63 b (every radix when w <= 65; b >= 2 when w = 128) *)
Theorem C08_wide_normalize_inter_value_w : forall (w b off : Z) (a r0 : list Z), 1 <= b <= w - 2 ->
  w - 2 <= 63 * b \/ - (off / b) - zn (length r0) <= 64 ->
  Forall (fun x => Z.abs x <= 2 ^ (w - 2)) a ->
  let out := normalize_inter w b off a r0 in
  length out = length r0 /\
  Forall (in_range b) out /\
  out = normalize_inter w b off a (zeros (length r0)) /\
  forall P, zn (length r0) * b + zn (length a) * b + Z.abs off <= P ->
    let D := tor_abs P (val_scaled P b out - val_scaled (P + off) b a) in
    D <= 2 ^ (P - zn (length r0) * b) /\
    (zn (length a) * b - off <= zn (length r0) * b -> D = 0).
Proof. exact normalize_inter_value_w. Qed.
Print Assumptions C08_wide_normalize_inter_value_w.

(* w = 64: the theorem C08_normalize_inter_value is this instance *)
Theorem C08_wide_normalize_inter_value_64 : forall (b off : Z) (a r0 : list Z), 1 <= b <= 62 ->
  Forall (fun x => Z.abs x <= 2 ^ 62) a ->
  let out := normalize_inter 64 b off a r0 in
  length out = length r0 /\
  Forall (in_range b) out /\
  out = normalize_inter 64 b off a (zeros (length r0)) /\
  forall P, zn (length r0) * b + zn (length a) * b + Z.abs off <= P ->
    let D := tor_abs P (val_scaled P b out - val_scaled (P + off) b a) in
    D <= 2 ^ (P - zn (length r0) * b) /\
    (zn (length a) * b - off <= zn (length r0) * b -> D = 0).
Proof. exact normalize_inter_value_64. Qed.
Print Assumptions C08_wide_normalize_inter_value_64.

(* the i128 routine of the NTT120 family (width 128, cap 128): every radix 1..126, every offset, no side condition *)
Theorem C08_wide_normalize_inter_value_128 : forall (b off : Z) (a r0 : list Z), 1 <= b <= 126 ->
  Forall (fun x => Z.abs x <= 2 ^ 126) a ->
  let out := normalize_inter_c 128 128 b off a r0 in
  length out = length r0 /\
  Forall (in_range b) out /\
  out = normalize_inter_c 128 128 b off a (zeros (length r0)) /\
  forall P, zn (length r0) * b + zn (length a) * b + Z.abs off <= P ->
    let D := tor_abs P (val_scaled P b out - val_scaled (P + off) b a) in
    D <= 2 ^ (P - zn (length r0) * b) /\
    (zn (length a) * b - off <= zn (length r0) * b -> D = 0).
Proof. exact normalize_inter_value_128. Qed.
Print Assumptions C08_wide_normalize_inter_value_128.

Example C08_wide_normalize_inter_value_128_ex :
  let a := [2 ^ 126; -5; 123456789012; - 2 ^ 126] in
  let out := normalize_inter_c 128 128 12 (-17) a [7; 7] in
  tor_abs 100 (val_scaled 100 12 out - val_scaled (100 + -17) 12 a) <= 2 ^ (100 - 2 * 12).
Proof.
  intros a out.
  destruct (C08_wide_normalize_inter_value_128 12 (-17) a [7; 7]) as (_ & _ & _ & HV).
  - lia.
  - repeat constructor; cbn; lia.
  - apply (HV 100). cbn. lia.
Qed.

(* the corner that separates the caps: radix 1, a carry of 2^69 crossing 68 missing limbs.  With cap 128 the
   result is exact; 64 steps (the i64 routine's cap applied to i128 words) would lose it. *)
Example C08_wide_cap_corner :
  normalize_inter_c 128 128 1 (-72) [2 ^ 70] [0; 0; 0; 0] = [-1; -1; -1; 0] /\
  tor_abs 100 (val_scaled 100 1 [-1; -1; -1; 0] - val_scaled (100 + -72) 1 [2 ^ 70]) = 0 /\
  normalize_inter_c 128 64 1 (-72) [2 ^ 70] [0; 0; 0; 0] = [0; 0; 0; 0] /\
  tor_abs 100 (val_scaled 100 1 [0; 0; 0; 0] - val_scaled (100 + -72) 1 [2 ^ 70]) = 2 * 2 ^ (100 - 4 * 1).
Proof. vm_compute. repeat split; reflexivity. Qed.

(* the dispatcher of the NTT120 big-accumulator normaliser on equal radices *)
Theorem C08_wide_normalize_big_same_value : forall (b off : Z) (a r0 : list Z), 1 <= b <= 126 ->
  Forall (fun x => Z.abs x <= 2 ^ 126) a ->
  exists out, normalize_big 128 b b off a r0 = Some out /\
  length out = length r0 /\
  Forall (in_range b) out /\
  normalize_big 128 b b off a (zeros (length r0)) = Some out /\
  forall P, zn (length r0) * b + zn (length a) * b + Z.abs off <= P ->
    let D := tor_abs P (val_scaled P b out - val_scaled (P + off) b a) in
    D <= 2 ^ (P - zn (length r0) * b) /\
    (zn (length a) * b - off <= zn (length r0) * b -> D = 0).
Proof. exact normalize_big_same_value. Qed.
Print Assumptions C08_wide_normalize_big_same_value.

(* ---------------- cross-radix normalisation: every offset, both word widths ---------------- *)
(* `normalize_cross_c w capbits` (Proofs/C08WCrossTheorem.v) is vec_znx_normalize_cross_base2k with the word width and
   the cap of the gap rounding as parameters; the two routines of the library are instances, by computation *)
Theorem C08_wide_normalize_cross_is_c128 : forall (w rb ab off : Z) (a r0 : list Z),
  normalize_cross w rb ab off a r0 = normalize_cross_c w 128 rb ab off a r0.
Proof. exact normalize_cross_is_c128. Qed.
Print Assumptions C08_wide_normalize_cross_is_c128.

Theorem C08_wide_normalize_cross_big_is_c192 : forall (w rb ab off : Z) (a r0 : list Z),
  normalize_cross_big w rb ab off a r0 = normalize_cross_c w 192 rb ab off a r0.
Proof. exact normalize_cross_big_is_c192. Qed.
Print Assumptions C08_wide_normalize_cross_big_is_c192.

(* gapbits_phase: rounding a carry c (within the headroom) through G gap bits in chunks of 32, capped at 32 kc bits:
   c = S + 2^G c' with |S| <= 2^G - 1, for EVERY G >= 0 (beyond the cap the carry has vanished) *)
Theorem C08_cross_neg_gapbits_spec : forall wd : Z, 34 <= wd -> forall (kc : nat) (G c : Z),
  (1 <= kc <= 8)%nat -> wd - 2 <= 32 * (Z.of_nat kc - 1) -> 0 <= G -> Z.abs c <= 2 ^ (wd - 2) ->
  let c' := gapbits_phase wd 8 (Z.min G (32 * Z.of_nat kc)) c in
  exists S, c = S + 2 ^ G * c' /\ Z.abs S <= 2 ^ G - 1 /\ Z.abs c' <= 2 ^ (wd - 2) /\ (c = 0 -> c' = 0).
Proof. exact gapbits_spec. Qed.
Print Assumptions C08_cross_neg_gapbits_spec.

(* the general statement: width wd >= 34, cap 32 kc bits with 32 (kc - 1) >= wd - 2, radices 1..wd-2, ANY offset *)
Theorem C08_wide_normalize_cross_c_value : forall (wd : Z) (kc : nat) (rb ab : Z), 34 <= wd -> (1 <= kc <= 8)%nat ->
  wd - 2 <= 32 * (Z.of_nat kc - 1) -> 1 <= rb <= wd - 2 -> 1 <= ab <= wd - 2 ->
  forall (off : Z) (a r0 : list Z), Forall (fun x => Z.abs x <= 2 ^ (wd - 2)) a ->
  exists out, normalize_cross_c wd (32 * Z.of_nat kc) rb ab off a r0 = Some out /\ length out = length r0 /\
    forall P, zn (length r0) * rb + zn (length a) * ab + Z.abs off <= P ->
      let D := tor_abs P (val_scaled P rb out - val_scaled (P + off) ab a) in
      D <= 2 ^ (P - zn (length r0) * rb) /\ (zn (length a) * ab - off <= zn (length r0) * rb -> D = 0).
Proof. exact normalize_cross_c_value. Qed.
Print Assumptions C08_wide_normalize_cross_c_value.

(* offsets >= 0 need neither the bound on the width nor on the cap *)
Theorem C08_wide_normalize_cross_c_value_pos : forall wd capbits rb ab : Z, 1 <= rb <= wd - 2 -> 1 <= ab <= wd - 2 ->
  forall (off : Z) (a r0 : list Z), 0 <= off -> Forall (fun x => Z.abs x <= 2 ^ (wd - 2)) a ->
  exists out, normalize_cross_c wd capbits rb ab off a r0 = Some out /\ length out = length r0 /\
    forall P, zn (length r0) * rb + zn (length a) * ab + off <= P ->
      let D := tor_abs P (val_scaled P rb out - val_scaled (P + off) ab a) in
      D <= 2 ^ (P - zn (length r0) * rb) /\ (zn (length a) * ab - off <= zn (length r0) * rb -> D = 0).
Proof. exact normalize_cross_c_value_pos. Qed.
Print Assumptions C08_wide_normalize_cross_c_value_pos.

(* vec_znx_normalize_cross_base2k (i64): the statement `normalize_cross_value_full` of Props/C08.v, now for every offset *)
Theorem C08_cross_neg_normalize_cross_value : forall rb ab : Z, 1 <= rb <= 62 -> 1 <= ab <= 62 ->
  forall (off : Z) (a r0 : list Z), hr62 a ->
  exists out, normalize_cross 64 rb ab off a r0 = Some out /\ length out = length r0 /\
    forall P, zn (length r0) * rb + zn (length a) * ab + Z.abs off <= P ->
      let D := tor_abs P (val_scaled P rb out - val_scaled (P + off) ab a) in
      D <= 2 ^ (P - zn (length r0) * rb) /\ (zn (length a) * ab - off <= zn (length r0) * rb -> D = 0).
Proof. exact normalize_cross_value_all. Qed.
Print Assumptions C08_cross_neg_normalize_cross_value.

Example C08_cross_neg_normalize_cross_value_ex :
  exists out, normalize_cross 64 5 12 (-31) [2 ^ 62; -5; 123456789012] [0; 0; 0; 0; 0; 0; 0; 0; 0] = Some out /\
    tor_abs 120 (val_scaled 120 5 out - val_scaled (120 + -31) 12 [2 ^ 62; -5; 123456789012]) <= 2 ^ (120 - 9 * 5).
Proof.
  destruct (C08_cross_neg_normalize_cross_value 5 12 ltac:(lia) ltac:(lia) (-31) [2 ^ 62; -5; 123456789012]
              [0; 0; 0; 0; 0; 0; 0; 0; 0]) as (out & E & _ & HV).
  - repeat constructor; cbn; lia.
  - exists out. split; [exact E|]. apply (HV 120). cbn. lia.
Qed.

(* a negative offset larger than the precision of res: only the rounded carry of a reaches res (gap rounding,
   a * 2^-40 = 0.1875 + ... = 24 / 2^7 + ...); and an offset that leaves the top res limbs to the carry *)
Example C08_cross_neg_gap_ex :
  normalize_cross 64 7 3 (-40) [2 ^ 40 + 2 ^ 39; - 2 ^ 62; 5] [0; 0; 0; 0; 0] = Some [24; 0; 0; 0; 0] /\
  normalize_cross 64 3 7 (-9) [-37; 2 ^ 61] [1; 1; 1; 1] = Some [0; 0; 0; -2].
Proof. vm_compute. split; reflexivity. Qed.

(* the dispatcher vec_znx_normalize of the i64 family: every pair of radices, every offset *)
Theorem C08_wide_normalize_value_all : forall rb ab : Z, 1 <= rb <= 62 -> 1 <= ab <= 62 ->
  forall (off : Z) (a r0 : list Z), hr62 a ->
  exists out, normalize 64 rb ab off a r0 = Some out /\ length out = length r0 /\
    forall P, zn (length r0) * rb + zn (length a) * ab + Z.abs off <= P ->
      let D := tor_abs P (val_scaled P rb out - val_scaled (P + off) ab a) in
      D <= 2 ^ (P - zn (length r0) * rb) /\ (zn (length a) * ab - off <= zn (length r0) * rb -> D = 0).
Proof. exact normalize_value_all. Qed.
Print Assumptions C08_wide_normalize_value_all.

(* vec_znx_normalize_cross_big_base2k of the NTT120 family (i128 accumulators, cap 192 bits): every offset *)
Theorem C08_wide_normalize_cross_big_value : forall rb ab : Z, 1 <= rb <= 126 -> 1 <= ab <= 126 ->
  forall (off : Z) (a r0 : list Z), Forall (fun x => Z.abs x <= 2 ^ 126) a ->
  exists out, normalize_cross_big 128 rb ab off a r0 = Some out /\ length out = length r0 /\
    forall P, zn (length r0) * rb + zn (length a) * ab + Z.abs off <= P ->
      let D := tor_abs P (val_scaled P rb out - val_scaled (P + off) ab a) in
      D <= 2 ^ (P - zn (length r0) * rb) /\ (zn (length a) * ab - off <= zn (length r0) * rb -> D = 0).
Proof. exact normalize_cross_big_value. Qed.
Print Assumptions C08_wide_normalize_cross_big_value.

Example C08_wide_normalize_cross_big_value_ex :
  exists out, normalize_cross_big 128 5 12 (-31) [2 ^ 126; -5; - 2 ^ 100] [0; 0; 0; 0; 0; 0; 0; 0; 0] = Some out /\
    tor_abs 120 (val_scaled 120 5 out - val_scaled (120 + -31) 12 [2 ^ 126; -5; - 2 ^ 100]) <= 2 ^ (120 - 9 * 5).
Proof.
  destruct (C08_wide_normalize_cross_big_value 5 12 ltac:(lia) ltac:(lia) (-31) [2 ^ 126; -5; - 2 ^ 100]
              [0; 0; 0; 0; 0; 0; 0; 0; 0]) as (out & E & _ & HV).
  - repeat constructor; cbn; lia.
  - exists out. split; [exact E|]. apply (HV 120). cbn. lia.
Qed.

(* the dispatcher of the NTT120 big-accumulator normaliser: the hypothesis `normalize_value_ok` of the other
   developments at width 128, for every pair of radices and every offset *)
Theorem C08_wide_normalize_big_value : forall rb ab : Z, 1 <= rb <= 126 -> 1 <= ab <= 126 ->
  forall (off : Z) (a r0 : list Z), Forall (fun x => Z.abs x <= 2 ^ 126) a ->
  exists out, normalize_big 128 rb ab off a r0 = Some out /\ length out = length r0 /\
    forall P, zn (length r0) * rb + zn (length a) * ab + Z.abs off <= P ->
      let D := tor_abs P (val_scaled P rb out - val_scaled (P + off) ab a) in
      D <= 2 ^ (P - zn (length r0) * rb) /\ (zn (length a) * ab - off <= zn (length r0) * rb -> D = 0).
Proof. exact normalize_big_value. Qed.
Print Assumptions C08_wide_normalize_big_value.

(* the oracle on the dispatcher vec_znx_normalize (record code 8101): never 0, no restriction on the offset *)
Theorem C08_cross_neg_coeff_ok_normalize : forall (rb ab off : Z) (a r0 : list Z), 1 <= rb <= 62 -> 1 <= ab <= 62 ->
  exists out, normalize 64 rb ab off a r0 = Some out /\ coeff_ok rb ab off 0 1 (rb =? ab) a r0 out <> 0.
Proof. exact coeff_ok_normalize_all. Qed.
Print Assumptions C08_cross_neg_coeff_ok_normalize.

(* ---------------- in-place normalisation and the shift family at any word width ---------------- *)
(* the routines of Limbs.v instantiated at width w, headroom |x| <= 2^(w-2), radix 1 <= b <= w - 2; the right shifts
   propagate a carry through a gap capped at 64 steps, hence `w - 2 <= 63 b` (every radix when w = 64) *)

Theorem C08_wide_normalize_assign_value : forall w b : Z, 1 <= b <= w - 2 -> forall r0 : list Z,
  Forall (fun x => Z.abs x <= 2 ^ (w - 2)) r0 ->
  let out := normalize_assign w b r0 in
  length out = length r0 /\ Forall (in_range b) out /\
  forall P, 2 * zn (length r0) * b <= P -> tor_abs P (val_scaled P b out - val_scaled P b r0) = 0.
Proof. exact normalize_assign_valueW. Qed.
Print Assumptions C08_wide_normalize_assign_value.

Theorem C08_wide_lsh_assign_value : forall w b : Z, 1 <= b <= w - 2 -> forall (k : Z) (r0 : list Z), 0 <= k ->
  Forall (fun x => Z.abs x <= 2 ^ (w - 2)) r0 ->
  let out := lsh_assign w b k r0 in
  length out = length r0 /\ Forall (in_range b) out /\
  forall P, 2 * zn (length r0) * b + k <= P ->
    tor_abs P (val_scaled P b out - val_scaled (P + k) b r0) = 0.
Proof. exact lsh_assign_valueW. Qed.
Print Assumptions C08_wide_lsh_assign_value.

Theorem C08_wide_lsh_value : forall w b : Z, 1 <= b <= w - 2 -> forall (ov : bool) (k : Z) (a r0 : list Z),
  0 <= k -> Forall (fun x => Z.abs x <= 2 ^ (w - 2)) a -> (ov = false -> Forall (fun x => Z.abs x <= 2 ^ (w - 2)) r0) ->
  let out := lsh w ov b k a r0 in
  length out = length r0 /\ (ov = true -> Forall (in_range b) out) /\
  forall P, zn (length r0) * b + zn (length a) * b + k <= P ->
    let D := tor_abs P (val_scaled P b out - (if ov then 0 else val_scaled P b r0)
                        - val_scaled (P + k) b a) in
    D <= 2 ^ (P - zn (length r0) * b) /\ (zn (length a) * b - k <= zn (length r0) * b -> D = 0).
Proof. exact lsh_valueW. Qed.
Print Assumptions C08_wide_lsh_value.

Theorem C08_wide_lsh_sub_value : forall w b : Z, 1 <= b <= w - 2 -> forall (k : Z) (a r0 : list Z),
  0 <= k -> Forall (fun x => Z.abs x <= 2 ^ (w - 2)) a -> Forall (fun x => Z.abs x <= 2 ^ (w - 2)) r0 ->
  let out := lsh_sub w b k a r0 in
  length out = length r0 /\
  forall P, zn (length r0) * b + zn (length a) * b + k <= P ->
    let D := tor_abs P (val_scaled P b out - val_scaled P b r0 + val_scaled (P + k) b a) in
    D <= 2 ^ (P - zn (length r0) * b) /\ (zn (length a) * b - k <= zn (length r0) * b -> D = 0).
Proof. exact lsh_sub_valueW. Qed.
Print Assumptions C08_wide_lsh_sub_value.

Theorem C08_wide_rsh_assign_value : forall w b : Z, 1 <= b <= w - 2 -> w - 2 <= 63 * b ->
  forall (k : Z) (r0 : list Z), 0 <= k -> Forall (fun x => Z.abs x <= 2 ^ (w - 2)) r0 ->
  let out := rsh_assign w b k r0 in
  length out = length r0 /\ Forall (in_range b) out /\
  forall P, 2 * zn (length r0) * b + k <= P ->
    let D := tor_abs P (val_scaled P b out - val_scaled (P - k) b r0) in
    D <= 2 ^ (P - zn (length r0) * b) /\ (k = 0 -> D = 0).
Proof. exact rsh_assign_valueW. Qed.
Print Assumptions C08_wide_rsh_assign_value.

Theorem C08_wide_rsh_ov_value : forall w b : Z, 1 <= b <= w - 2 -> w - 2 <= 63 * b ->
  forall (k : Z) (a r0 : list Z), 0 <= k -> Forall (fun x => Z.abs x <= 2 ^ (w - 2)) a ->
  let out := rsh w true b k a r0 in
  length out = length r0 /\ Forall (in_range b) out /\
  forall P, zn (length r0) * b + zn (length a) * b + k <= P ->
    let D := tor_abs P (val_scaled P b out - val_scaled (P - k) b a) in
    D <= 2 ^ (P - zn (length r0) * b) /\ (zn (length a) * b + k <= zn (length r0) * b -> D = 0).
Proof. exact rsh_ov_valueW. Qed.
Print Assumptions C08_wide_rsh_ov_value.

Theorem C08_wide_rsh_add_value : forall w b : Z, 1 <= b <= w - 2 -> w - 2 <= 63 * b ->
  forall (k : Z) (a r0 : list Z), 0 <= k ->
  Forall (fun x => Z.abs x <= 2 ^ (w - 2)) a -> Forall (fun x => Z.abs x <= 2 ^ (w - 2)) r0 ->
  let out := rsh w false b k a r0 in
  length out = length r0 /\
  forall P, zn (length r0) * b + zn (length a) * b + k <= P ->
    let D := tor_abs P (val_scaled P b out - val_scaled P b r0 - val_scaled (P - k) b a) in
    D <= 2 ^ (P - zn (length r0) * b) /\ (zn (length a) * b + k <= zn (length r0) * b -> D = 0).
Proof. exact rsh_add_valueW. Qed.
Print Assumptions C08_wide_rsh_add_value.

Theorem C08_wide_rsh_sub_value : forall w b : Z, 1 <= b <= w - 2 -> w - 2 <= 63 * b ->
  forall (k : Z) (a r0 : list Z), 0 <= k ->
  Forall (fun x => Z.abs x <= 2 ^ (w - 2)) a -> Forall (fun x => Z.abs x <= 2 ^ (w - 2)) r0 ->
  let out := rsh_sub w b k a r0 in
  length out = length r0 /\
  forall P, zn (length r0) * b + zn (length a) * b + k <= P ->
    let D := tor_abs P (val_scaled P b out - val_scaled P b r0 + val_scaled (P - k) b a) in
    D <= 2 ^ (P - zn (length r0) * b) /\ (zn (length a) * b + k <= zn (length r0) * b -> D = 0).
Proof. exact rsh_sub_valueW. Qed.
Print Assumptions C08_wide_rsh_sub_value.

Example C08_wide_rsh_sub_value_ex :
  let a := [2 ^ 126; -5; 123456789012; - 2 ^ 126] in
  let r0 := [11; - 2 ^ 126] in
  let out := rsh_sub 128 12 41 a r0 in
  tor_abs 120 (val_scaled 120 12 out - val_scaled 120 12 r0 + val_scaled (120 - 41) 12 a) <= 2 ^ (120 - 2 * 12).
Proof.
  intros a r0 out.
  destruct (C08_wide_rsh_sub_value 128 12 ltac:(lia) ltac:(lia) 41 a r0) as (_ & HV).
  - lia.
  - repeat constructor; cbn; lia.
  - repeat constructor; cbn; lia.
  - apply (HV 120). cbn. lia.
Qed.
