From Coq Require Extraction ExtrOcamlBasic.
From PV Require Import Model.C08Run Model.C08Oracle.
Extraction Language OCaml.
Definition run := run_c08.
Definition oracle := oracle_c08.
Extraction "model.ml" run oracle.
