From Coq Require Extraction ExtrOcamlBasic.
From PV Require Import Model.C11Run.
Extraction Language OCaml.
Definition run := run_c11.
Definition oracle := oracle_c11.
Extraction "model.ml" run oracle.
