From Coq Require Extraction ExtrOcamlBasic.
From PV Require Import Model.C07Run.
Extraction Language OCaml.
Definition run := run_c07.
Definition oracle := oracle_c07.
Extraction "model.ml" run oracle.
