From Coq Require Extraction ExtrOcamlBasic.
From PV Require Import Model.C07All.
Extraction Language OCaml.
Definition run := run_c07_all.
Definition oracle := oracle_c07_all.
Extraction "model.ml" run oracle.
