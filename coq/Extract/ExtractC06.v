From Coq Require Extraction ExtrOcamlBasic.
From PV Require Import Model.C06Run Model.C06Oracle.
Extraction Language OCaml.
Definition run := run_c06.
Definition oracle := oracle_c06.
Extraction "model.ml" run oracle.
