From Coq Require Extraction ExtrOcamlBasic.
From PV Require Import Model.C03Run.
Extraction Language OCaml.
Definition run := run_c03.
Definition oracle := oracle_c03.
Extraction "model.ml" run oracle.
