From Coq Require Extraction ExtrOcamlBasic.
From PV Require Import Model.C19Run Model.C19Oracle.
Extraction Language OCaml.
Definition run := run_c19.
Definition oracle := oracle_c19.
Extraction "model.ml" run oracle.
