From Coq Require Extraction ExtrOcamlBasic.
From PV Require Import Model.C18Serial Model.C18Run.
Extraction Language OCaml.
Definition run := run_c18.
Definition oracle := oracle_c18.
Extraction "model.ml" run oracle.
