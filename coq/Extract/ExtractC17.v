From Coq Require Extraction ExtrOcamlBasic.
From PV Require Import Model.C17Run.
Extraction Language OCaml.
Definition run := run_c17.
Definition oracle := oracle_c17.
Extraction "model.ml" run oracle.
