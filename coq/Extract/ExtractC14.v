From Coq Require Extraction ExtrOcamlBasic.
From PV Require Import Model.C14Run Model.C14Oracle.
Extraction Language OCaml.
Definition run := run_c14.
Definition oracle := oracle_c14.
Extraction "model.ml" run oracle.
