From Coq Require Extraction ExtrOcamlBasic.
From PV Require Import Model.C07NttNet.
Extraction Language OCaml.
Definition run := run_c07_net.
Definition oracle := oracle_c07_net.
Extraction "model.ml" run oracle.
