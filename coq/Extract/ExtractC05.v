From Coq Require Extraction ExtrOcamlBasic.
From PV Require Import Model.C05Run Model.C05Oracle.
Extraction Language OCaml.
Definition run := run_c05.
Definition oracle := oracle_c05.
Extraction "model.ml" run oracle.
