From Coq Require Extraction ExtrOcamlBasic.
From PV Require Import Model.C02Run.
Extraction Language OCaml.
Definition run := run_c02.
Definition oracle := oracle_c02.
Extraction "model.ml" run oracle.
