From Coq Require Extraction ExtrOcamlBasic.
From PV Require Import Model.C12Run.
Extraction Language OCaml.
Definition run := run_c12.
Definition oracle := oracle_c12.
Extraction "model.ml" run oracle.
