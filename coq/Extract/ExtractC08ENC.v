From Coq Require Extraction ExtrOcamlBasic.
From PV Require Import Model.C08Encode.
Extraction Language OCaml.
Definition run := run_c08_enc.
Definition oracle := oracle_c08_enc.
Extraction "model.ml" run oracle.
