From Coq Require Extraction ExtrOcamlBasic.
From PV Require Import Model.C09Run Model.C09Oracle.
Extraction Language OCaml.
Definition run := run_c09.
Definition oracle := oracle_c09.
Extraction "model.ml" run oracle.
