From Coq Require Extraction ExtrOcamlBasic.
From PV Require Import Model.C15Uint Model.C15Cbt Model.C15Run.
Extraction Language OCaml.
Definition run := run_c15.
Definition oracle := oracle_c15.
Extraction "model.ml" run oracle.
