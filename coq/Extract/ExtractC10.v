From Coq Require Extraction ExtrOcamlBasic.
From PV Require Import Model.C10Run.
Extraction Language OCaml.
Definition run := run_c10.
Definition oracle := oracle_c10.
Extraction "model.ml" run oracle.
