From Coq Require Extraction ExtrOcamlBasic.
From PV Require Import Model.C16Meta Model.C16Oracle.
Extraction Language OCaml.
Definition run := run_c16.
Definition oracle := oracle_c16.
Extraction "model.ml" run oracle.
