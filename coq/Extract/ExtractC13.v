From Coq Require Extraction ExtrOcamlBasic.
From PV Require Import Model.C13Bdd Model.C13Run.
Extraction Language OCaml.
Definition run := run_c13.
Definition oracle := oracle_c13.
Extraction "model.ml" run oracle.
