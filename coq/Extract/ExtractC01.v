From Coq Require Extraction ExtrOcamlBasic.
From PV Require Import Model.C01Run Model.C01Oracle.
Extraction Language OCaml.
Definition run := run_c01.
Definition oracle := oracle_c01.
Extraction "model.ml" run oracle.
