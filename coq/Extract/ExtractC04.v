From Coq Require Extraction ExtrOcamlBasic.
From PV Require Import Model.C04Run.
Extraction Language OCaml.
Definition run := run_c04.
Definition oracle := oracle_c04.
Extraction "model.ml" run oracle.
