From Coq Require Extraction ExtrOcamlBasic.
From PV Require Import Model.C20Threads.
Extraction Language OCaml.
Definition run := run_c20.
Definition oracle := oracle_c20.
Extraction "model.ml" run oracle.
